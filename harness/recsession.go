package harness

import (
	"io"

	"github.com/emersion/go-imap/v2"
	"github.com/emersion/go-imap/v2/imapserver"
	"github.com/emersion/go-sasl"
	"verif.local/simrt"
)

// recCall is one backend invocation with deep copies of its typed arguments (C02).
type recCall struct {
	Method string
	S      []string // string arguments, byte-exact
	NumSet string   // canonical text of the number set ("" if none)
	UIDCmd bool
	V      interface{} // method-specific options/criteria (deep copy)
	Bytes  []byte      // APPEND payload
	Step   int
}

// recBackend records every call; it accepts everything and returns minimal data.
type recBackend struct {
	calls []recCall
}

func (b *recBackend) NewSession(*imapserver.Conn) (imapserver.Session, *imapserver.GreetingData, error) {
	return &recSession{b: b}, nil, nil
}

type recSession struct{ b *recBackend }

var _ imapserver.SessionIMAP4rev2 = (*recSession)(nil)

func (s *recSession) add(c recCall) {
	c.Step = simrt.Step()
	s.b.calls = append(s.b.calls, c)
}

func (s *recSession) Close() error { return nil }
func (s *recSession) Login(u, p string) error {
	s.add(recCall{Method: "Login", S: []string{u, p}})
	return nil
}
func (s *recSession) AuthenticateMechanisms() []string { return []string{"PLAIN"} }
func (s *recSession) Authenticate(mech string) (sasl.Server, error) {
	return sasl.NewPlainServer(func(identity, username, password string) error {
		s.add(recCall{Method: "Login", S: []string{username, password}})
		return nil
	}), nil
}
func (s *recSession) Select(mailbox string, options *imap.SelectOptions) (*imap.SelectData, error) {
	o := imap.SelectOptions{}
	if options != nil {
		o = *options
	}
	s.add(recCall{Method: "Select", S: []string{mailbox}, V: o})
	return &imap.SelectData{Flags: []imap.Flag{imap.FlagSeen}, PermanentFlags: []imap.Flag{imap.FlagSeen}, NumMessages: 5, UIDNext: 6, UIDValidity: 1}, nil
}
func (s *recSession) Create(mailbox string, options *imap.CreateOptions) error {
	var su []imap.MailboxAttr
	if options != nil {
		su = append(su, options.SpecialUse...)
	}
	s.add(recCall{Method: "Create", S: []string{mailbox}, V: su})
	return nil
}
func (s *recSession) Delete(m string) error {
	s.add(recCall{Method: "Delete", S: []string{m}})
	return nil
}
func (s *recSession) Rename(a, b string) error {
	s.add(recCall{Method: "Rename", S: []string{a, b}})
	return nil
}
func (s *recSession) Subscribe(m string) error {
	s.add(recCall{Method: "Subscribe", S: []string{m}})
	return nil
}
func (s *recSession) Unsubscribe(m string) error {
	s.add(recCall{Method: "Unsubscribe", S: []string{m}})
	return nil
}
func (s *recSession) List(w *imapserver.ListWriter, ref string, patterns []string, options *imap.ListOptions) error {
	o := imap.ListOptions{}
	if options != nil {
		o = *options
		if options.ReturnStatus != nil {
			st := *options.ReturnStatus
			o.ReturnStatus = &st
		}
	}
	s.add(recCall{Method: "List", S: append([]string{ref}, patterns...), V: o})
	return nil
}
func (s *recSession) Status(mailbox string, options *imap.StatusOptions) (*imap.StatusData, error) {
	o := imap.StatusOptions{}
	if options != nil {
		o = *options
	}
	s.add(recCall{Method: "Status", S: []string{mailbox}, V: o})
	n, sz := uint32(1), int64(10)
	return &imap.StatusData{Mailbox: mailbox, NumMessages: &n, UIDNext: 2, UIDValidity: 1, NumUnseen: &n, NumDeleted: &n, Size: &sz, AppendLimit: &n, DeletedStorage: &sz}, nil
}
func (s *recSession) Append(mailbox string, r imap.LiteralReader, options *imap.AppendOptions) (*imap.AppendData, error) {
	b, _ := io.ReadAll(r)
	o := imap.AppendOptions{}
	if options != nil {
		o.Time = options.Time
		o.Flags = append(o.Flags, options.Flags...)
	}
	s.add(recCall{Method: "Append", S: []string{mailbox}, V: o, Bytes: b})
	return &imap.AppendData{UID: 9, UIDValidity: 1}, nil
}
func (s *recSession) Poll(w *imapserver.UpdateWriter, allowExpunge bool) error { return nil }
func (s *recSession) Idle(w *imapserver.UpdateWriter, stop <-chan struct{}) error {
	s.add(recCall{Method: "Idle"})
	simrt.Recv(stop)
	return nil
}
func (s *recSession) Unselect() error { s.add(recCall{Method: "Unselect"}); return nil }
func (s *recSession) Expunge(w *imapserver.ExpungeWriter, uids *imap.UIDSet) error {
	c := recCall{Method: "Expunge"}
	if uids != nil {
		c.NumSet, c.UIDCmd = uids.String(), true
	}
	s.add(c)
	return nil
}
func (s *recSession) Search(kind imapserver.NumKind, criteria *imap.SearchCriteria, options *imap.SearchOptions) (*imap.SearchData, error) {
	o := imap.SearchOptions{}
	if options != nil {
		o = *options
	}
	var c imap.SearchCriteria
	if criteria != nil {
		c = copyCriteria(criteria)
	}
	s.add(recCall{Method: "Search", UIDCmd: kind == imapserver.NumKindUID, V: [2]interface{}{c, o}})
	d := &imap.SearchData{UID: kind == imapserver.NumKindUID, Count: 1, Min: 2, Max: 2}
	if d.UID {
		d.All = imap.UIDSetNum(2)
	} else {
		d.All = imap.SeqSetNum(2)
	}
	return d, nil
}
func (s *recSession) Fetch(w *imapserver.FetchWriter, numSet imap.NumSet, options *imap.FetchOptions) error {
	_, uid := numSet.(imap.UIDSet)
	s.add(recCall{Method: "Fetch", NumSet: numSet.String(), UIDCmd: uid, V: copyFetchOptions(options)})
	return nil
}
func (s *recSession) Store(w *imapserver.FetchWriter, numSet imap.NumSet, flags *imap.StoreFlags, options *imap.StoreOptions) error {
	_, uid := numSet.(imap.UIDSet)
	f := imap.StoreFlags{}
	if flags != nil {
		f.Op, f.Silent = flags.Op, flags.Silent
		f.Flags = append(f.Flags, flags.Flags...)
	}
	s.add(recCall{Method: "Store", NumSet: numSet.String(), UIDCmd: uid, V: f})
	return nil
}
func (s *recSession) Copy(numSet imap.NumSet, dest string) (*imap.CopyData, error) {
	_, uid := numSet.(imap.UIDSet)
	s.add(recCall{Method: "Copy", S: []string{dest}, NumSet: numSet.String(), UIDCmd: uid})
	return nil, nil
}
func (s *recSession) Move(w *imapserver.MoveWriter, numSet imap.NumSet, dest string) error {
	_, uid := numSet.(imap.UIDSet)
	s.add(recCall{Method: "Move", S: []string{dest}, NumSet: numSet.String(), UIDCmd: uid})
	return nil
}
func (s *recSession) Namespace() (*imap.NamespaceData, error) {
	s.add(recCall{Method: "Namespace"})
	return &imap.NamespaceData{Personal: []imap.NamespaceDescriptor{{Prefix: "", Delim: '/'}}}, nil
}

func copyCriteria(c *imap.SearchCriteria) imap.SearchCriteria {
	out := imap.SearchCriteria{Since: c.Since, Before: c.Before, SentSince: c.SentSince, SentBefore: c.SentBefore, Larger: c.Larger, Smaller: c.Smaller}
	for _, s := range c.SeqNum {
		out.SeqNum = append(out.SeqNum, append(imap.SeqSet{}, s...))
	}
	for _, s := range c.UID {
		out.UID = append(out.UID, append(imap.UIDSet{}, s...))
	}
	out.Header = append(out.Header, c.Header...)
	out.Body = append(out.Body, c.Body...)
	out.Text = append(out.Text, c.Text...)
	out.Flag = append(out.Flag, c.Flag...)
	out.NotFlag = append(out.NotFlag, c.NotFlag...)
	for i := range c.Not {
		out.Not = append(out.Not, copyCriteria(&c.Not[i]))
	}
	for i := range c.Or {
		out.Or = append(out.Or, [2]imap.SearchCriteria{copyCriteria(&c.Or[i][0]), copyCriteria(&c.Or[i][1])})
	}
	return out
}

func copyFetchOptions(o *imap.FetchOptions) imap.FetchOptions {
	if o == nil {
		return imap.FetchOptions{}
	}
	out := *o
	if o.BodyStructure != nil {
		bs := *o.BodyStructure
		out.BodyStructure = &bs
	}
	out.BodySection = nil
	for _, s := range o.BodySection {
		c := *s
		c.Part = append([]int{}, s.Part...)
		c.HeaderFields = append([]string{}, s.HeaderFields...)
		c.HeaderFieldsNot = append([]string{}, s.HeaderFieldsNot...)
		if s.Partial != nil {
			p := *s.Partial
			c.Partial = &p
		}
		out.BodySection = append(out.BodySection, &c)
	}
	out.BinarySection = nil
	for _, s := range o.BinarySection {
		c := *s
		c.Part = append([]int{}, s.Part...)
		if s.Partial != nil {
			p := *s.Partial
			c.Partial = &p
		}
		out.BinarySection = append(out.BinarySection, &c)
	}
	out.BinarySectionSize = nil
	for _, s := range o.BinarySectionSize {
		c := *s
		c.Part = append([]int{}, s.Part...)
		out.BinarySectionSize = append(out.BinarySectionSize, &c)
	}
	return out
}
