package harness

// imapscan: an independent lexer for the IMAP wire, written from the RFC 9051 / RFC 7888 grammar.
// It shares no code with internal/imapwire and is the only thing the wire oracles trust.
// It is strict: anything it cannot parse is reported as malformed, with the bytes.

import (
	"bytes"
	"fmt"
	"strconv"
	"strings"
)

// WLine is one logical protocol line: from a line start up to the CRLF that ends it, including
// any literals announced inside it.
type WLine struct {
	Start, End int    // offsets into the stream; End is past the final CRLF when Complete
	Raw        []byte // bytes of the logical line without the final CRLF
	Complete   bool   // the final CRLF (and every announced literal octet) is present
	Literals   []WLit
	Malformed  string // non-empty: why the line violates the framing grammar
}

// WLit describes one literal inside a logical line.
type WLit struct {
	HdrStart int // offset of '{' (or '~')
	Start    int // offset of first payload octet
	Size     int64
	NonSync  bool
	Binary   bool
	Present  int64 // payload octets actually present in the stream
}

// literalSuffix recognises "{n}", "{n+}", "~{n}" at the end of a physical line.
func literalSuffix(line []byte) (size int64, nonSync, binary bool, hdrLen int, ok bool) {
	n := len(line)
	if n < 3 || line[n-1] != '}' {
		return
	}
	i := n - 2
	if line[i] == '+' {
		nonSync = true
		i--
	}
	j := i
	for j >= 0 && line[j] >= '0' && line[j] <= '9' {
		j--
	}
	if j == i || j < 0 || line[j] != '{' {
		return 0, false, false, 0, false
	}
	v, err := strconv.ParseInt(string(line[j+1:i+1]), 10, 64)
	if err != nil {
		return 0, false, false, 0, false
	}
	hdr := j
	if j > 0 && line[j-1] == '~' {
		binary = true
		hdr = j - 1
	}
	return v, nonSync, binary, n - hdr, true
}

// inQuotedAtEnd reports whether a physical line ends inside an unterminated quoted string.
func inQuotedAtEnd(line []byte) bool {
	in := false
	for i := 0; i < len(line); i++ {
		c := line[i]
		if in {
			if c == '\\' {
				i++
			} else if c == '"' {
				in = false
			}
		} else if c == '"' {
			in = true
		}
	}
	return in
}

// SplitLines cuts a byte stream into logical lines. follow decides, for a synchronising literal
// (ordinal k in the stream), whether its payload follows (the peer accepted it); nil means "always".
// Non-synchronising literals are always followed by their payload.
func SplitLines(stream []byte, follow func(k int, size int64) bool) []WLine {
	var out []WLine
	pos := 0
	syncOrd := 0
	for pos < len(stream) {
		ln := WLine{Start: pos}
		cur := pos
		for {
			i := bytes.Index(stream[cur:], []byte("\r\n"))
			if i < 0 {
				ln.End = len(stream)
				ln.Raw = stream[ln.Start:]
				out = append(out, ln)
				return out
			}
			phys := stream[cur : cur+i]
			if j := bytes.IndexByte(phys, '\n'); j >= 0 {
				ln.Malformed = "bare LF"
			}
			if j := bytes.IndexByte(phys, '\r'); j >= 0 && ln.Malformed == "" {
				ln.Malformed = "bare CR"
			}
			end := cur + i + 2
			size, nonSync, binary, hdrLen, ok := literalSuffix(phys)
			if ok && !inQuotedAtEnd(phys) { // (a quoted string cannot span lines: only the text since the last literal payload counts)
				lit := WLit{HdrStart: cur + i - hdrLen, Start: end, Size: size, NonSync: nonSync, Binary: binary}
				has := true
				if !nonSync && follow != nil {
					has = follow(syncOrd, size)
					syncOrd++
				}
				if !has {
					// refused synchronising literal: the line ends here
					ln.Literals = append(ln.Literals, lit)
					ln.End = end
					ln.Raw = stream[ln.Start : cur+i]
					ln.Complete = true
					break
				}
				avail := int64(len(stream) - end)
				if avail < size {
					lit.Present = avail
					ln.Literals = append(ln.Literals, lit)
					ln.End = len(stream)
					ln.Raw = stream[ln.Start:]
					out = append(out, ln)
					return out
				}
				lit.Present = size
				ln.Literals = append(ln.Literals, lit)
				cur = end + int(size)
				continue
			}
			ln.End = end
			ln.Raw = stream[ln.Start : cur+i]
			ln.Complete = true
			break
		}
		out = append(out, ln)
		pos = ln.End
	}
	return out
}

// Tok is a node of the token tree of one logical line.
type Tok struct {
	Kind byte // 'a' atom (incl. numbers, NIL, flags, section specs), 'q' quoted, 'l' literal, '(' list
	S    string
	L    []Tok
}

func (t Tok) String() string {
	switch t.Kind {
	case 'q':
		return strconv.Quote(t.S)
	case 'l':
		return fmt.Sprintf("{%d}%q", len(t.S), clipStr(t.S, 40))
	case '(':
		var p []string
		for _, x := range t.L {
			p = append(p, x.String())
		}
		return "(" + strings.Join(p, " ") + ")"
	}
	return t.S
}

func clipStr(s string, n int) string {
	if len(s) > n {
		return s[:n] + "…"
	}
	return s
}

// IsNIL reports whether the token is the atom NIL.
func (t Tok) IsNIL() bool { return t.Kind == 'a' && strings.EqualFold(t.S, "NIL") }

// Str returns the string value of an nstring / astring token.
func (t Tok) Str() string { return t.S }

type tokParser struct {
	b   []byte
	pos int
	lit map[int]WLit // literal header offset (relative to b) -> literal
}

// ParseTokens parses the bytes of one logical line (as cut by SplitLines) starting at offset
// `from` into a token sequence. Tokens are separated by exactly one SP.
func ParseTokens(ln WLine, from int) ([]Tok, error) {
	p := &tokParser{b: ln.Raw, pos: from, lit: map[int]WLit{}}
	for _, l := range ln.Literals {
		p.lit[l.HdrStart-ln.Start] = l
	}
	toks, err := p.seq(0)
	if err != nil {
		return toks, err
	}
	if p.pos != len(p.b) {
		return toks, fmt.Errorf("trailing bytes at %d: %q", p.pos, clipStr(string(p.b[p.pos:]), 40))
	}
	return toks, nil
}

func (p *tokParser) seq(depth int) ([]Tok, error) {
	var out []Tok
	for p.pos < len(p.b) {
		if p.b[p.pos] == ')' {
			if depth == 0 {
				return out, fmt.Errorf("unbalanced ')' at %d", p.pos)
			}
			return out, nil
		}
		if len(out) > 0 {
			if p.b[p.pos] != ' ' {
				return out, fmt.Errorf("expected SP at %d, got %q", p.pos, p.b[p.pos])
			}
			p.pos++
			if p.pos >= len(p.b) {
				return out, fmt.Errorf("trailing SP")
			}
		}
		t, err := p.one(depth)
		if err != nil {
			return out, err
		}
		out = append(out, t)
	}
	if depth > 0 {
		return out, fmt.Errorf("unterminated list")
	}
	return out, nil
}

func (p *tokParser) one(depth int) (Tok, error) {
	c := p.b[p.pos]
	switch {
	case c == '(':
		if depth > 2000 {
			return Tok{}, fmt.Errorf("nesting too deep")
		}
		p.pos++
		l, err := p.seq(depth + 1)
		if err != nil {
			return Tok{}, err
		}
		if p.pos >= len(p.b) || p.b[p.pos] != ')' {
			return Tok{}, fmt.Errorf("unterminated list")
		}
		p.pos++
		return Tok{Kind: '(', L: l}, nil
	case c == '"':
		p.pos++
		var sb []byte
		for {
			if p.pos >= len(p.b) {
				return Tok{}, fmt.Errorf("unterminated quoted string")
			}
			ch := p.b[p.pos]
			if ch == '"' {
				p.pos++
				break
			}
			if ch == '\\' {
				p.pos++
				if p.pos >= len(p.b) || (p.b[p.pos] != '"' && p.b[p.pos] != '\\') {
					return Tok{}, fmt.Errorf("bad escape in quoted string")
				}
				ch = p.b[p.pos]
			} else if ch == '\r' || ch == '\n' || ch == 0 {
				return Tok{}, fmt.Errorf("forbidden octet %#x in quoted string", ch)
			}
			sb = append(sb, ch)
			p.pos++
		}
		return Tok{Kind: 'q', S: string(sb)}, nil
	case c == '{' || (c == '~' && p.pos+1 < len(p.b) && p.b[p.pos+1] == '{'):
		l, ok := p.lit[p.pos]
		if !ok {
			return Tok{}, fmt.Errorf("literal marker not at end of line at %d", p.pos)
		}
		// header "{n}" CRLF payload
		end := bytes.Index(p.b[p.pos:], []byte("}\r\n"))
		if end < 0 {
			return Tok{}, fmt.Errorf("bad literal header")
		}
		start := p.pos + end + 3
		if int64(len(p.b)-start) < l.Size {
			return Tok{}, fmt.Errorf("short literal")
		}
		s := string(p.b[start : start+int(l.Size)])
		p.pos = start + int(l.Size)
		return Tok{Kind: 'l', S: s}, nil
	case c == ' ' || c == ')':
		return Tok{}, fmt.Errorf("unexpected %q at %d", c, p.pos)
	}
	// atom-ish: runs until SP, '(' or ')' — except that "[...]" sections and "<...>" partials belong to it
	start := p.pos
	for p.pos < len(p.b) {
		ch := p.b[p.pos]
		if ch == '[' {
			depthB := 0
			for p.pos < len(p.b) {
				if p.b[p.pos] == '[' {
					depthB++
				} else if p.b[p.pos] == ']' {
					depthB--
					if depthB == 0 {
						break
					}
				}
				p.pos++
			}
			if p.pos >= len(p.b) {
				return Tok{}, fmt.Errorf("unterminated '['")
			}
			p.pos++
			continue
		}
		if ch == ' ' || ch == '(' || ch == ')' || ch == '"' || ch == '{' {
			break
		}
		if ch < 0x20 || ch == 0x7f {
			return Tok{}, fmt.Errorf("control octet %#x in atom", ch)
		}
		p.pos++
	}
	if p.pos == start {
		return Tok{}, fmt.Errorf("empty atom at %d", start)
	}
	return Tok{Kind: 'a', S: string(p.b[start:p.pos])}, nil
}

// Resp is a parsed server response line.
type Resp struct {
	Line    WLine
	Tag     string // "*", "+" or a tag
	Num     uint32 // for "* n EXISTS/EXPUNGE/FETCH/RECENT"
	HasNum  bool
	Name    string // upper-cased response name or status (OK NO BAD BYE PREAUTH EXISTS FETCH ...)
	Code    string // response code name (upper-cased) for status responses
	CodeArg string
	Text    string // resp-text after the code
	Toks    []Tok  // data tokens after the name (non-status responses)
	Err     string // malformed
}

func isStatus(n string) bool {
	switch n {
	case "OK", "NO", "BAD", "BYE", "PREAUTH":
		return true
	}
	return false
}

// ParseResp parses one complete logical line sent by a server.
func ParseResp(ln WLine) Resp {
	r := Resp{Line: ln}
	if ln.Malformed != "" {
		r.Err = ln.Malformed
		return r
	}
	raw := ln.Raw
	if len(raw) > 0 && raw[0] == '+' {
		r.Tag = "+"
		if len(raw) > 1 {
			if raw[1] != ' ' {
				r.Err = "continuation request without SP"
				return r
			}
			r.Text = string(raw[2:])
		}
		return r
	}
	sp := bytes.IndexByte(raw, ' ')
	if sp <= 0 {
		r.Err = "no tag"
		return r
	}
	r.Tag = string(raw[:sp])
	for _, c := range raw[:sp] {
		if c <= 0x20 || c >= 0x7f || strings.IndexByte("(){%*\"\\+", c) >= 0 && !(c == '*' && sp == 1) {
			r.Err = "bad tag"
			return r
		}
	}
	rest := raw[sp+1:]
	// first word
	w := rest
	if i := bytes.IndexByte(rest, ' '); i >= 0 {
		w = rest[:i]
	}
	if len(w) == 0 {
		r.Err = "empty response name"
		return r
	}
	off := sp + 1
	if w[0] >= '0' && w[0] <= '9' {
		v, err := strconv.ParseUint(string(w), 10, 32)
		if err != nil {
			r.Err = "bad number"
			return r
		}
		if r.Tag != "*" {
			r.Err = "numbered response with tag"
			return r
		}
		r.Num, r.HasNum = uint32(v), true
		off += len(w) + 1
		if off > len(raw) {
			r.Err = "number without name"
			return r
		}
		rest = raw[off:]
		w = rest
		if i := bytes.IndexByte(rest, ' '); i >= 0 {
			w = rest[:i]
		}
	}
	r.Name = strings.ToUpper(string(w))
	off += len(w)
	if isStatus(r.Name) && !r.HasNum {
		if off < len(raw) {
			if raw[off] != ' ' {
				r.Err = "status without SP"
				return r
			}
			text := raw[off+1:]
			if len(text) > 0 && text[0] == '[' {
				end := bytes.IndexByte(text, ']')
				if end < 0 {
					r.Err = "unterminated response code"
					return r
				}
				code := string(text[1:end])
				if i := strings.IndexByte(code, ' '); i >= 0 {
					r.Code, r.CodeArg = strings.ToUpper(code[:i]), code[i+1:]
				} else {
					r.Code = strings.ToUpper(code)
				}
				text = text[end+1:]
				if len(text) > 0 {
					if text[0] != ' ' {
						r.Err = "no SP after response code"
						return r
					}
					text = text[1:]
				}
			}
			if bytes.IndexByte(text, 0) >= 0 {
				r.Err = "NUL in text"
				return r
			}
			r.Text = string(text)
		}
		if len(ln.Literals) > 0 {
			r.Err = "literal in status response"
		}
		return r
	}
	if r.Tag != "*" {
		r.Err = "tagged response is not a status response: " + r.Name
		return r
	}
	if off < len(raw) {
		if raw[off] != ' ' {
			r.Err = "no SP after name"
			return r
		}
		toks, err := ParseTokens(ln, off+1)
		r.Toks = toks
		if err != nil {
			r.Err = err.Error()
		}
	}
	return r
}

// ParseServerStream parses everything a server wrote. The last element may be incomplete.
func ParseServerStream(stream []byte) []Resp {
	var out []Resp
	for _, ln := range SplitLines(stream, nil) {
		if !ln.Complete {
			out = append(out, Resp{Line: ln, Err: "incomplete"})
			continue
		}
		out = append(out, ParseResp(ln))
	}
	return out
}

// Cmd is a parsed client command line.
type Cmd struct {
	Line WLine
	Tag  string
	Name string // upper-cased, "UID X" for UID commands; "" for continuation data (DONE, SASL)
	Args []Tok
	Err  string
}

// ParseCmd parses one logical line sent by a client.
func ParseCmd(ln WLine) Cmd {
	c := Cmd{Line: ln}
	if ln.Malformed != "" {
		c.Err = ln.Malformed
		return c
	}
	raw := ln.Raw
	sp := bytes.IndexByte(raw, ' ')
	if sp <= 0 {
		c.Name = ""
		c.Tag = string(raw)
		return c
	}
	c.Tag = string(raw[:sp])
	toks, err := ParseTokens(ln, sp+1)
	if err != nil {
		c.Err = err.Error()
	}
	if len(toks) == 0 || toks[0].Kind != 'a' {
		if c.Err == "" {
			c.Err = "no command name"
		}
		return c
	}
	c.Name = strings.ToUpper(toks[0].S)
	c.Args = toks[1:]
	if c.Name == "UID" && len(c.Args) > 0 && c.Args[0].Kind == 'a' {
		c.Name = "UID " + strings.ToUpper(c.Args[0].S)
		c.Args = c.Args[1:]
	}
	return c
}
