package harness

import (
	"bytes"
	"fmt"
	"net"
	"strings"
	"time"

	"verif.local/simrt"
)

// scriptSrv is a scripted IMAP server: it reads the client's bytes through the independent
// scanner's command side and answers whatever the check's plan says.
type scriptSrv struct {
	r       *R
	conn    net.Conn
	buf     []byte // unparsed client bytes
	all     []byte // everything received (for oracles)
	eof     bool
	timeout time.Duration
	// literal policy: return "" to accept (a continuation request is sent), or a complete tagged
	// refusal line (without CRLF). delay is simulated time to wait before answering.
	onSyncLiteral func(tag string, size int64) (refusal string, delay time.Duration)
	// events, stamped with the global scheduler step
	contSteps []srvLitEvent
	sent      bytes.Buffer
}

type srvLitEvent struct {
	Tag        string
	Size       int64
	NonSync    bool
	Refused    bool
	AnswerStep int // step at which "+" (or the refusal) was written
	HdrEnd     int // offset in all[] just after the literal header's CRLF
}

// sCmd is a command read by the scripted server.
type sCmd struct {
	Tag, Name string
	Raw       []byte // logical line without final CRLF, literals included
	Args      []Tok
	Refused   bool // ended by a refused synchronising literal
	Err       string
}

func newScriptSrv(r *R, conn net.Conn) *scriptSrv {
	return &scriptSrv{r: r, conn: conn, timeout: 30 * time.Minute}
}

func (s *scriptSrv) fill() bool {
	if s.eof {
		return false
	}
	s.conn.SetReadDeadline(time.Now().Add(s.timeout))
	var b [4096]byte
	n, err := s.conn.Read(b[:])
	s.buf = append(s.buf, b[:n]...)
	s.all = append(s.all, b[:n]...)
	if err != nil {
		s.eof = true
	}
	return n > 0
}

func (s *scriptSrv) send(lines ...string) error {
	var b []byte
	for _, l := range lines {
		b = append(b, l...)
		b = append(b, "\r\n"...)
	}
	return s.sendRaw(b)
}

func (s *scriptSrv) sendRaw(b []byte) error {
	s.sent.Write(b)
	_, err := s.conn.Write(b)
	return err
}

// readLine reads up to CRLF (exclusive); ok=false at end of stream.
func (s *scriptSrv) readLine() ([]byte, bool) {
	for {
		if i := bytes.Index(s.buf, []byte("\r\n")); i >= 0 {
			line := append([]byte{}, s.buf[:i]...)
			s.buf = s.buf[i+2:]
			return line, true
		}
		if !s.fill() && s.eof {
			return nil, false
		}
		if s.eof && !bytes.Contains(s.buf, []byte("\r\n")) {
			return nil, false
		}
	}
}

func (s *scriptSrv) readN(n int64) ([]byte, bool) {
	for int64(len(s.buf)) < n {
		if !s.fill() && s.eof {
			return nil, false
		}
	}
	b := append([]byte{}, s.buf[:n]...)
	s.buf = s.buf[n:]
	return b, true
}

// readCommand reads one complete command, handling literals per the literal policy.
func (s *scriptSrv) readCommand() (*sCmd, bool) {
	var raw []byte
	var lits []WLit
	tag := ""
	for {
		line, ok := s.readLine()
		if !ok {
			return nil, false
		}
		if tag == "" {
			if i := bytes.IndexByte(line, ' '); i > 0 {
				tag = string(line[:i])
			} else {
				tag = string(line)
			}
		}
		start := len(raw)
		raw = append(raw, line...)
		size, nonSync, binary, hdrLen, isLit := literalSuffix(line)
		if !isLit || inQuotedAtEnd(line) { // (only the text since the last literal payload: payloads may contain quotes)
			break
		}
		ev := srvLitEvent{Tag: tag, Size: size, NonSync: nonSync, HdrEnd: len(s.all) - len(s.buf)}
		if !nonSync {
			refusal, delay := "", time.Duration(0)
			if s.onSyncLiteral != nil {
				refusal, delay = s.onSyncLiteral(tag, size)
			}
			if delay > 0 {
				simrt.Sleep(delay)
			}
			if refusal != "" {
				ev.Refused, ev.AnswerStep = true, simrt.Step()
				s.contSteps = append(s.contSteps, ev)
				s.send(refusal)
				c := &sCmd{Tag: tag, Raw: raw, Refused: true}
				c.Name = cmdNameFromRaw(raw)
				return c, true
			}
			ev.AnswerStep = simrt.Step()
			s.send("+ Ready for literal data")
		}
		s.contSteps = append(s.contSteps, ev)
		payload, ok := s.readN(size)
		if !ok {
			return nil, false
		}
		raw = append(raw, "\r\n"...)
		lits = append(lits, WLit{HdrStart: start + len(line) - hdrLen, Start: len(raw), Size: size, NonSync: nonSync, Binary: binary, Present: size})
		raw = append(raw, payload...)
	}
	ln := WLine{Start: 0, End: len(raw) + 2, Raw: raw, Complete: true, Literals: lits}
	pc := ParseCmd(ln)
	return &sCmd{Tag: pc.Tag, Name: pc.Name, Raw: raw, Args: pc.Args, Err: pc.Err}, true
}

func cmdNameFromRaw(raw []byte) string {
	f := strings.Fields(string(raw))
	if len(f) < 2 {
		return ""
	}
	n := strings.ToUpper(f[1])
	if n == "UID" && len(f) > 2 {
		n += " " + strings.ToUpper(f[2])
	}
	return n
}

// argStr returns the i-th argument as a string ("" if absent).
func (c *sCmd) argStr(i int) string {
	if i < len(c.Args) {
		return c.Args[i].S
	}
	return ""
}

func (c *sCmd) String() string {
	return fmt.Sprintf("%s %s %q", c.Tag, c.Name, clipStr(string(c.Raw), 120))
}
