//go:build race

package harness

import (
	"fmt"
	"os"
	"sort"
	"strings"
)

const raceBuild = true

// The supervisor sets GORACE=log_path=<out>/race-<worker>; the runtime appends ".<pid>".
func raceLogPath(outDir string, worker int) string {
	return fmt.Sprintf("%s/race-%d.%d", outDir, worker, os.Getpid())
}

func raceMark(outDir string, worker int) int64 {
	st, err := os.Stat(raceLogPath(outDir, worker))
	if err != nil {
		return 0
	}
	return st.Size()
}

// raceViolations reads the race reports written since mark and applies the frame rule of
// DESIGN.md 2.3: a report counts only if both accesses reach go-imap code before any simulator
// or harness frame.
func raceViolations(outDir string, worker int, mark int64, sum *workerSummary) []Violation {
	b, err := os.ReadFile(raceLogPath(outDir, worker))
	if err != nil || int64(len(b)) <= mark {
		return nil
	}
	text := string(b[mark:])
	var out []Violation
	for _, rep := range strings.Split(text, "==================") {
		if !strings.Contains(rep, "WARNING: DATA RACE") {
			continue
		}
		a, ok := classifyRace(rep)
		if !ok {
			sum.RaceArtefact++
			if len(sum.Infra) < 3 {
				sum.Infra = append(sum.Infra, "race-artefact (report with simulator frame first):\n"+rep)
			}
			continue
		}
		out = append(out, Violation{Oracle: "race", Class: a, Detail: rep})
	}
	return out
}

func classifyRace(rep string) (string, bool) {
	var stacks [][]string
	var cur []string
	in := false
	for _, l := range strings.Split(rep, "\n") {
		switch {
		case strings.HasPrefix(l, "Read at ") || strings.HasPrefix(l, "Write at ") || strings.HasPrefix(l, "Previous read at ") || strings.HasPrefix(l, "Previous write at ") ||
			strings.HasPrefix(l, "Atomic ") || strings.HasPrefix(l, "Previous atomic "):
			if in {
				stacks = append(stacks, cur)
			}
			cur, in = nil, true
		case strings.HasPrefix(l, "Goroutine ") || strings.HasPrefix(l, "[failed to restore the stack]"):
			if in {
				stacks = append(stacks, cur)
			}
			cur, in = nil, false
		case in && strings.HasPrefix(l, "  ") && !strings.HasPrefix(l, "   "):
			f := strings.TrimSpace(l)
			if j := strings.LastIndex(f, "("); j > 0 {
				f = f[:j]
			}
			cur = append(cur, f)
		}
	}
	if in {
		stacks = append(stacks, cur)
	}
	if len(stacks) < 2 {
		return "", false
	}
	var names []string
	for _, st := range stacks[:2] {
		found := ""
		for i, f := range st {
			if strings.HasPrefix(f, "verif.local/simrt.") && !strings.HasPrefix(f, "verif.local/simrt/simnet") {
				// The woven wrappers (simrt.Send/Recv/Close/Select/MapKeys/Mutex...) stand for the
				// program's own channel, map and lock operations: they are transparent, except when
				// the reported access is the scheduler's own slice bookkeeping.
				if i > 0 && (strings.HasPrefix(st[0], "runtime.growslice") || strings.HasPrefix(st[0], "runtime.slicecopy")) {
					return "", false
				}
				continue
			}
			if strings.HasPrefix(f, "verif.local/") {
				return "", false
			}
			if strings.HasPrefix(f, "github.com/emersion/go-imap/") {
				found = f
				break
			}
		}
		if found == "" {
			return "", false
		}
		names = append(names, normFunc(found[strings.LastIndex(found, "/")+1:]))
	}
	sort.Strings(names)
	return names[0] + " <-> " + names[1], true
}
