package harness

import (
	"fmt"
	"strconv"
	"strings"
	"time"

	"github.com/emersion/go-imap/v2"
	"verif.local/simrt"
)

// C08 — on-the-wire mailbox view consistency across sessions (real server + real imapmemserver).

func init() {
	register(&Prop{
		ID:    "C08",
		Level: "exploration",
		Rule: "case = history of <=40 commands issued one at a time by 1..4 sessions of one user over 2 shared mailboxes of the real in-memory backend: APPEND, SELECT/EXAMINE, STORE (+/-\\Deleted and others), EXPUNGE, UID EXPUNGE, COPY, MOVE, FETCH and SEARCH in UID and non-UID forms with static numbers, ranges and '*', NOOP, IDLE, CLOSE/UNSELECT; which session acts next comes from the plan, so views get arbitrarily stale; in 1 run of 3 some adjacent commands of different sessions are issued concurrently and the schedule interleaves them inside the server; command names in upper, lower or mixed case; optionally a bystander disconnects. " +
			"Oracle: a per-connection wire observer built on the independent scanner (announced count, sequence-number -> UID list reconstructed from EXISTS / EXPUNGE / FETCH UID). Non-trivial: at least two sessions selected the same mailbox and one of them changed it. Distinct: distinct event-log hashes.",
		Components:   "real: imapserver.Conn, trackers, imapmemserver (woven); stub: scripted raw peers with wire observers, network, clock, scheduler",
		Assumptions:  []string{"commands are issued one at a time across sessions (as the property states); only idling sessions receive data asynchronously"},
		QuickRuns:    5000,
		ThoroughRuns: 150000,
		Run:          runC08,
	})
}

// wireView is what one connection can reconstruct from the responses it received.
type wireView struct {
	selected string
	count    int
	uids     []uint32 // 0 = UID not learned yet
	removed  map[uint32]int
}

type c08sess struct {
	p    *rawPeer
	v    *wireView
	seen int
	name string
}

var c08boxes = []string{"INBOX", "Work"}

func runC08(r *R) {
	t := r.P
	nsess := 1 + t.Choose(4)
	capsVariant := t.Choose(3)
	nsteps := 2 + t.Choose(40)
	type step struct {
		sess int
		line string
		lit  []byte
		idle time.Duration
		kind string
		pair bool // overlap mode: issued concurrently with the next step (of another session)
	}
	var steps []step
	// 1 run in 3: some adjacent commands of different sessions are issued concurrently, so that the schedule decides
	// how they interleave inside the server (the per-connection invariants do not depend on a serial order)
	overlap := t.Choose(3) == 2
	for i := 0; i < nsess; i++ {
		steps = append(steps, step{sess: i, line: "SELECT " + c08boxes[t.Choose(3)%2], kind: "select"})
	}
	seqs := []string{"1", "2", "1:*", "*", "2:3", "1:2", "3:*", "1,3", "4", "*:1"}
	for i := 0; i < nsteps; i++ {
		s := step{sess: t.Choose(nsess)}
		box := c08boxes[t.Choose(2)]
		set := seqs[t.Choose(len(seqs))]
		switch t.Choose(20) {
		case 0, 1, 2:
			s.line, s.lit, s.kind = "APPEND "+box+" ", []byte(sampleMessages[t.Choose(len(sampleMessages))]), "append"
		case 3:
			s.line, s.kind = []string{"SELECT ", "EXAMINE "}[t.Choose(2)]+box, "select"
		case 4, 5:
			s.line, s.kind = []string{"STORE ", "UID STORE "}[t.Choose(2)]+set+[]string{` +FLAGS (\Deleted)`, ` -FLAGS (\Deleted)`, ` FLAGS (\Seen)`, ` +FLAGS.SILENT (\Deleted)`}[t.Choose(4)], "store"
		case 6, 7:
			s.line, s.kind = "EXPUNGE", "expunge"
		case 8:
			s.line, s.kind = "UID EXPUNGE "+set, "expunge"
		case 9:
			s.line, s.kind = []string{"COPY ", "UID COPY "}[t.Choose(2)]+set+" "+box, "copy"
		case 10, 11:
			s.line, s.kind = []string{"MOVE ", "UID MOVE "}[t.Choose(2)]+set+" "+box, "move"
		case 12, 13:
			s.line, s.kind = []string{"FETCH ", "UID FETCH "}[t.Choose(2)]+set+[]string{" (UID FLAGS)", " (FLAGS)", " (UID BODY.PEEK[HEADER])", " (UID BODY[TEXT])"}[t.Choose(4)], "fetch"
		case 14, 15:
			s.line, s.kind = []string{"SEARCH ", "UID SEARCH "}[t.Choose(2)]+[]string{"ALL", "DELETED", set, "UID " + set, "NOT DELETED", "RETURN (MIN MAX COUNT ALL) ALL", []string{"1", "2", "3", "2:3", "1:2", "1,3", "4", "2:4"}[t.Choose(8)], "1:3"}[t.Choose(8)], "search"
		case 16, 17:
			s.line, s.kind = "NOOP", "noop"
		case 18:
			s.line, s.kind, s.idle = "IDLE", "idle", time.Duration(1+t.Choose(3))*time.Second
		default:
			s.line, s.kind = []string{"CLOSE", "UNSELECT"}[t.Choose(2)], "close"
		}
		if t.Choose(4) == 0 {
			s.line = c08caseCmd(s.line, t.Choose(2)) // command names are case-insensitive
		}
		if overlap && t.Choose(2) == 0 {
			s.pair = true
			if t.Choose(3) == 0 {
				// a (re-)SELECT racing the next session's command
				s.line, s.lit, s.idle, s.kind = "SELECT "+box, nil, 0, "select"
			}
		}
		steps = append(steps, s)
	}
	bystanderDrop := t.Choose(4) == 0
	cfg := r.SchedConfig()
	sharedChange := false
	var log *logBuf
	r.Sim(cfg, func() {
		caps := defaultCaps([]int{0, 2, 3}[capsVariant])
		env := newMemEnv(r, memOpts{caps: caps, mailboxes: map[string]int{"INBOX": 3, "Work": 2}, insecureAuth: true})
		log = env.log
		done := make(chan struct{})
		simrt.GoTask("driver", func() {
			defer close(done)
			tagN := 0
			tag := func() string { tagN++; return fmt.Sprintf("y%d", tagN) }
			var ss []*c08sess
			for i := 0; i < nsess; i++ {
				cc := env.Connect(fmt.Sprintf("peer%d", i))
				p := newRawPeer(r, fmt.Sprintf("peer%d", i), cc)
				p.timeout = 2 * time.Minute
				if !p.waitGreeting() {
					return
				}
				p.run([]rawCmd{textCmd(tag(), `LOGIN "user" "pass"`)})
				ss = append(ss, &c08sess{p: p, v: &wireView{removed: map[uint32]int{}}, name: fmt.Sprintf("session %d", i), seen: len(p.resps)})
			}
			selectedBy := map[string]int{}
			mk := func(si int) rawCmd {
				st := steps[si]
				c := textCmd(tag(), st.line)
				if st.lit != nil {
					c.Parts = cat(st.line, rawPart{IsLit: true, Lit: st.lit, Sync: si%2 == 0})
					c.Name = "APPEND"
				}
				if st.kind == "idle" {
					c.Cont = []string{"DONE"}
					c.IdleFor = st.idle
				}
				return c
			}
			after := func(si int) bool {
				st := steps[si]
				s := ss[st.sess]
				o := s.p.outcomes[len(s.p.outcomes)-1]
				where := fmt.Sprintf("step %d, %s: %s", si, s.name, st.line)
				if !c08Observe(r, s, o, st.kind, st.line, where) {
					return false
				}
				if o.Reply != nil && o.Reply.Name == "OK" {
					switch st.kind {
					case "select":
						selectedBy[s.v.selected]++
					case "append", "expunge", "move", "copy", "store":
						for _, n := range []int{selectedBy["INBOX"], selectedBy["Work"]} {
							if n >= 2 {
								sharedChange = true
							}
						}
					}
				}
				if bystanderDrop && si == len(steps)/2 && nsess > 1 {
					ss[nsess-1].p.conn.Close()
					ss[nsess-1].p.eof = true
				}
				return true
			}
			for si := 0; si < len(steps); si++ {
				st := steps[si]
				s := ss[st.sess]
				if s.p.eof {
					continue
				}
				if st.pair && si+1 < len(steps) && steps[si+1].sess != st.sess && !ss[steps[si+1].sess].p.eof {
					s2 := ss[steps[si+1].sess]
					c, c2 := mk(si), mk(si+1)
					d2 := make(chan struct{})
					simrt.GoTask(s2.p.name+"-overlap", func() {
						defer close(d2)
						s2.p.run([]rawCmd{c2})
					})
					s.p.run([]rawCmd{c})
					waitOrTimeout(d2, 24*time.Hour)
					r.Probe("overlapped_pair")
					if !after(si) || !after(si+1) {
						return
					}
					si++
					continue
				}
				s.p.run([]rawCmd{mk(si)})
				if !after(si) {
					return
				}
			}
			// final: after NOOP every session's reconstructed list equals UID FETCH 1:* and the lists of all
			// sessions on the same mailbox agree
			final := map[string][]uint32{}
			for _, s := range ss {
				if s.p.eof || s.v.selected == "" {
					continue
				}
				for _, line := range []string{"NOOP", "UID FETCH 1:* (UID)"} {
					c := textCmd(tag(), line)
					s.p.run([]rawCmd{c})
					o := s.p.outcomes[len(s.p.outcomes)-1]
					kind := "noop"
					if line != "NOOP" {
						kind = "fetchall"
					}
					if !c08Observe(r, s, o, kind, line, "final "+line+", "+s.name) {
						return
					}
				}
				for i, u := range s.v.uids {
					if u == 0 {
						r.Violate("view-incomplete", "", "%s: after NOOP and UID FETCH 1:* the message at sequence number %d of %d was never reported (mailbox %s)", s.name, i+1, s.v.count, s.v.selected)
						return
					}
				}
				if prev, ok := final[s.v.selected]; ok && fmt.Sprint(prev) != fmt.Sprint(s.v.uids) {
					r.Violate("views-disagree", "", "after NOOP two sessions on mailbox %s reconstruct different message lists: %v vs %v", s.v.selected, prev, s.v.uids)
					return
				}
				final[s.v.selected] = append([]uint32{}, s.v.uids...)
			}
			// ground truth through a fresh connection
			cc := env.Connect("truth")
			tp := newRawPeer(r, "truth", cc)
			tp.timeout = 2 * time.Minute
			if tp.waitGreeting() {
				tp.run([]rawCmd{textCmd(tag(), `LOGIN "user" "pass"`)})
				for _, box := range c08boxes { // (never range over a Go map in a run: iteration order is not deterministic)
					uids, ok := final[box]
					if !ok {
						continue
					}
					ts := &c08sess{p: tp, v: &wireView{removed: map[uint32]int{}}, name: "fresh session", seen: len(tp.resps)}
					for _, line := range []string{"SELECT " + box, "UID FETCH 1:* (UID)"} {
						tp.run([]rawCmd{textCmd(tag(), line)})
						kind := "select"
						if strings.HasPrefix(line, "UID") {
							kind = "fetchall"
						}
						if !c08Observe(r, ts, tp.outcomes[len(tp.outcomes)-1], kind, line, "truth "+line) {
							return
						}
					}
					if fmt.Sprint(ts.v.uids) != fmt.Sprint(uids) {
						r.Violate("view-diverged", "", "after NOOP a session's reconstructed message list of %s is %v but the mailbox (fresh SELECT + UID FETCH 1:*) holds %v", box, uids, ts.v.uids)
						return
					}
				}
				cc.Close()
			}
			for _, s := range ss {
				s.p.conn.Close()
			}
		})
		waitOrTimeout(done, 24*time.Hour)
		env.Shutdown()
	})
	if r.Res.Infra != "" {
		return
	}
	r.Nontrivial = sharedChange
	r.CheckLiveness(true)
	for _, p := range log.panics() {
		r.Violate("server-panic", panicLogClass(p), "%s", clipStr(p, 2000))
	}
}

// c08Observe applies the responses received for one command to the connection's wire view and
// checks the invariants. It returns false when a violation was reported.
func c08Observe(r *R, s *c08sess, o *cmdOutcome, kind, line, where string) bool {
	v := s.v
	p := s.p
	isUID := strings.HasPrefix(strings.ToUpper(line), "UID ")
	noExpunge := !isUID && (kind == "fetch" || kind == "store" || kind == "search")
	bad := func(oracle, class, format string, args ...interface{}) bool {
		r.Violate(oracle, class, where+": "+format, args...)
		r.Tracef("%s: responses: %s", where, c08dump(p, s.seen))
		return false
	}
	if kind == "select" {
		// the server first closes the previous mailbox, then reports the new one
		v.selected, v.count, v.uids = "", 0, nil
	}
	for ; s.seen < len(p.resps); s.seen++ {
		rp := p.resps[s.seen]
		if rp.Err != "" {
			return bad("malformed-response", rp.Err, "server line is not well formed: %q", clipStr(string(rp.Line.Raw), 200))
		}
		if rp.Tag != "*" {
			continue
		}
		switch {
		case rp.HasNum && rp.Name == "EXISTS":
			if int(rp.Num) < v.count {
				return bad("count-shrunk-without-expunge", "", "'* %d EXISTS' but %d messages had been announced and only EXPUNGE may shrink the count", rp.Num, v.count)
			}
			for v.count < int(rp.Num) {
				v.uids = append(v.uids, 0)
				v.count++
			}
		case rp.HasNum && rp.Name == "EXPUNGE":
			if noExpunge {
				return bad("expunge-during-no-expunge-command", kind, "'* %d EXPUNGE' was sent while answering a %s that is not a UID command", rp.Num, strings.ToUpper(kind))
			}
			if rp.Num == 0 || int(rp.Num) > v.count {
				return bad("seqnum-out-of-range", "EXPUNGE", "'* %d EXPUNGE' but the announced message count is %d", rp.Num, v.count)
			}
			u := v.uids[rp.Num-1]
			if u != 0 {
				v.removed[u]++
				if v.removed[u] > 1 {
					return bad("expunge-reported-twice", "", "the removal of UID %d was reported twice on this connection", u)
				}
			}
			v.uids = append(v.uids[:rp.Num-1:rp.Num-1], v.uids[rp.Num:]...)
			v.count--
		case rp.HasNum && rp.Name == "FETCH":
			if rp.Num == 0 || int(rp.Num) > v.count {
				return bad("seqnum-out-of-range", "FETCH", "'* %d FETCH' but the announced message count is %d", rp.Num, v.count)
			}
			if len(rp.Toks) == 1 && rp.Toks[0].Kind == '(' {
				l := rp.Toks[0].L
				for i := 0; i+1 < len(l); i += 2 {
					if strings.EqualFold(l[i].S, "UID") {
						u64, _ := strconv.ParseUint(l[i+1].S, 10, 32)
						u := uint32(u64)
						if u == 0 {
							return bad("uid-zero", "FETCH", "FETCH reported UID 0")
						}
						if old := v.uids[rp.Num-1]; old != 0 && old != u {
							return bad("seqnum-uid-mapping-changed", "", "sequence number %d was UID %d and is now reported as UID %d without an EXPUNGE in between", rp.Num, old, u)
						}
						for j, x := range v.uids {
							if x == u && j != int(rp.Num)-1 {
								return bad("seqnum-uid-mapping-changed", "", "UID %d is reported at sequence number %d but was at %d", u, rp.Num, j+1)
							}
						}
						v.uids[rp.Num-1] = u
					}
				}
			}
		case rp.Name == "SEARCH" && !isUID:
			for _, tk := range rp.Toks {
				if tk.Kind != 'a' {
					continue
				}
				n, err := strconv.ParseUint(tk.S, 10, 32)
				if err != nil {
					continue
				}
				if n == 0 || int(n) > v.count {
					return bad("seqnum-out-of-range", "SEARCH", "SEARCH result %d but the announced message count is %d", n, v.count)
				}
				// a search whose only key is a sequence set can only return members of that set, read in this connection's view
				if in, ok := c08keySet(line, v.count); ok && !in(uint32(n)) {
					return bad("search-outside-key-set", "SEARCH", "the search key is the sequence set of %q, read against the %d messages announced on this connection, but the result contains %d", line, v.count, n)
				}
			}
		case rp.Name == "SEARCH" && isUID:
			in, ok := c08keySet(line, v.count)
			for _, tk := range rp.Toks {
				u, err := strconv.ParseUint(tk.S, 10, 32)
				if tk.Kind != 'a' || err != nil || !ok {
					continue
				}
				for j, x := range v.uids {
					if x == uint32(u) && !in(uint32(j+1)) {
						return bad("search-outside-key-set", "UID SEARCH", "the search key is the sequence set of %q, but the result contains UID %d, which this connection knows as sequence number %d of %d", line, u, j+1, v.count)
					}
				}
			}
		case rp.Name == "ESEARCH" && !isUID:
			for i := 0; i+1 < len(rp.Toks); i++ {
				key := strings.ToUpper(rp.Toks[i].S)
				if key == "ALL" || key == "MIN" || key == "MAX" {
					set, err := imapParseSeq(rp.Toks[i+1].S)
					if err != nil {
						continue
					}
					for _, rg := range set {
						if rg.Start == 0 || rg.Stop == 0 || int(rg.Stop) > v.count || int(rg.Start) > v.count {
							return bad("seqnum-out-of-range", "ESEARCH", "ESEARCH %s %s but the announced message count is %d", key, rp.Toks[i+1].S, v.count)
						}
					}
				}
			}
		}
	}
	if o.Reply == nil {
		if o.TimedOut {
			return bad("no-tagged-reply", kind, "no tagged reply")
		}
		return true
	}
	if o.Reply.Name == "OK" {
		switch kind {
		case "select":
			f := strings.Fields(line)
			v.selected = f[1]
			v.removed = map[uint32]int{}
		case "close":
			v.selected, v.count, v.uids = "", 0, nil
		case "fetchall":
			// every message of the view must have been reported by UID FETCH 1:*
		}
	} else if kind == "select" {
		v.selected, v.count, v.uids = "", 0, nil
	}
	return true
}

func c08dump(p *rawPeer, from int) string {
	var s []string
	start := from - 12
	if start < 0 {
		start = 0
	}
	for i := start; i < len(p.resps); i++ {
		s = append(s, clipStr(string(p.resps[i].Line.Raw), 80))
	}
	return strings.Join(s, " | ")
}

// c08keySet: for "SEARCH <set>" / "UID SEARCH <set>" (the whole search program is one sequence set) the membership
// test of that set.
func c08keySet(line string, count int) (func(uint32) bool, bool) {
	f := strings.Fields(line)
	if len(f) > 0 && strings.EqualFold(f[0], "UID") {
		f = f[1:]
	}
	if len(f) > 0 {
		f[0] = strings.ToUpper(f[0])
	}
	// ('*' is left out: whether it names the last message of a stale view or of the mailbox is not settled by the property)
	if len(f) != 2 || f[0] != "SEARCH" || f[1] == "" || !strings.ContainsAny(f[1][:1], "0123456789") || strings.Contains(f[1], "*") {
		return nil, false
	}
	type rg struct{ lo, hi uint32 }
	var rgs []rg
	for _, part := range strings.Split(f[1], ",") {
		a, b := part, part
		if i := strings.IndexByte(part, ':'); i >= 0 {
			a, b = part[:i], part[i+1:]
		}
		num := func(x string) (uint32, bool) {
			if x == "*" {
				return uint32(count), true
			}
			n, err := strconv.ParseUint(x, 10, 32)
			return uint32(n), err == nil
		}
		lo, ok1 := num(a)
		hi, ok2 := num(b)
		if !ok1 || !ok2 {
			return nil, false
		}
		if lo > hi {
			lo, hi = hi, lo
		}
		rgs = append(rgs, rg{lo, hi})
	}
	return func(n uint32) bool {
		for _, r := range rgs {
			if n >= r.lo && n <= r.hi {
				return true
			}
		}
		return false
	}, true
}

// c08caseCmd rewrites the command name (and the UID prefix) in lower case (mode 0) or with an initial capital (mode 1).
func c08caseCmd(line string, mode int) string {
	f := strings.SplitN(line, " ", 3)
	n := 1
	if strings.EqualFold(f[0], "UID") && len(f) > 1 {
		n = 2
	}
	for i := 0; i < n && i < len(f); i++ {
		w := strings.ToLower(f[i])
		if mode == 1 && w != "" {
			w = strings.ToUpper(w[:1]) + w[1:]
		}
		f[i] = w
	}
	return strings.Join(f, " ")
}

func imapParseSeq(s string) (imap.SeqSet, error) {
	var set imap.SeqSet
	for _, part := range strings.Split(s, ",") {
		a, b := part, part
		if i := strings.IndexByte(part, ':'); i >= 0 {
			a, b = part[:i], part[i+1:]
		}
		x, err := strconv.ParseUint(a, 10, 32)
		if err != nil {
			return nil, err
		}
		y, err := strconv.ParseUint(b, 10, 32)
		if err != nil {
			return nil, err
		}
		set.AddRange(uint32(x), uint32(y))
	}
	return set, nil
}
