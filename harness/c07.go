package harness

import (
	"fmt"
	"io"
	"strings"
	"time"

	"github.com/emersion/go-imap/v2"
	"github.com/emersion/go-imap/v2/imapserver"
	"verif.local/simrt"
)

// C07 — sequence-number translation between a client's view and the mailbox.

func init() {
	register(&Prop{
		ID:    "C07",
		Level: "exploration",
		Rule: "case = history of <=40 steps over one real MailboxTracker and 1..4 sessions (real server connections whose stub Session owns a SessionTracker and delegates Poll and Idle to it): append k>=1 messages (QueueNumMessages), expunge any message (QueueExpunge), flag change with or without a source session (QueueMessageFlags), mailbox flag change, poll of a session through NOOP (expunge allowed) or FETCH/STORE/SEARCH (not allowed), IDLE with mutations pushed meanwhile, session open/close; after every step, for every session, every client sequence number is decoded and every server sequence number encoded. " +
			"Oracle: explicit lists of message identities for the mailbox and for each client view (updated only by what the peer reads off the wire). Non-trivial: at least one mutation and one poll happened. Distinct: distinct event-log hashes.",
		Components:   "real: imapserver.MailboxTracker / SessionTracker, imapserver.Conn poll/idle/UpdateWriter (woven); stub: tracker-delegating Session, scripted raw peers, reference list model, network, clock, scheduler",
		Assumptions:  []string{"numbers outside the respective domain (client numbers above the client's count, server numbers above the mailbox count) are not judged", "steps of a history are sequential; only IDLE pushes run concurrently with the peer"},
		QuickRuns:    8000,
		ThoroughRuns: 300000,
		Run:          runC07,
	})
}

type c07Backend struct {
	mt    *imapserver.MailboxTracker
	count func() uint32
	sess  []*c07Sess
}

type c07Sess struct {
	b  *c07Backend
	st *imapserver.SessionTracker
}

func (s *c07Sess) Close() error {
	if s.st != nil {
		s.st.Close()
		s.st = nil
	}
	return nil
}
func (s *c07Sess) Login(u, p string) error { return nil }
func (s *c07Sess) Select(mailbox string, options *imap.SelectOptions) (*imap.SelectData, error) {
	s.st = s.b.mt.NewSession()
	return &imap.SelectData{NumMessages: s.b.count(), UIDNext: 1000, UIDValidity: 1}, nil
}
func (s *c07Sess) Create(string, *imap.CreateOptions) error { return nil }
func (s *c07Sess) Delete(string) error                      { return nil }
func (s *c07Sess) Rename(string, string) error              { return nil }
func (s *c07Sess) Subscribe(string) error                   { return nil }
func (s *c07Sess) Unsubscribe(string) error                 { return nil }
func (s *c07Sess) List(w *imapserver.ListWriter, ref string, patterns []string, options *imap.ListOptions) error {
	return nil
}
func (s *c07Sess) Status(mailbox string, options *imap.StatusOptions) (*imap.StatusData, error) {
	n := uint32(0)
	return &imap.StatusData{Mailbox: mailbox, NumMessages: &n}, nil
}
func (s *c07Sess) Append(mailbox string, r imap.LiteralReader, options *imap.AppendOptions) (*imap.AppendData, error) {
	io.Copy(io.Discard, r)
	return nil, nil
}
func (s *c07Sess) Poll(w *imapserver.UpdateWriter, allowExpunge bool) error {
	if s.st == nil {
		return nil
	}
	return s.st.Poll(w, allowExpunge)
}
func (s *c07Sess) Idle(w *imapserver.UpdateWriter, stop <-chan struct{}) error {
	if s.st == nil {
		simrt.Recv(stop)
		return nil
	}
	return s.st.Idle(w, stop)
}
func (s *c07Sess) Unselect() error {
	if s.st != nil {
		s.st.Close()
		s.st = nil
	}
	return nil
}
func (s *c07Sess) Expunge(w *imapserver.ExpungeWriter, uids *imap.UIDSet) error { return nil }
func (s *c07Sess) Search(kind imapserver.NumKind, criteria *imap.SearchCriteria, options *imap.SearchOptions) (*imap.SearchData, error) {
	return &imap.SearchData{All: imap.SeqSet{}}, nil
}
func (s *c07Sess) Fetch(w *imapserver.FetchWriter, numSet imap.NumSet, options *imap.FetchOptions) error {
	return nil
}
func (s *c07Sess) Store(w *imapserver.FetchWriter, numSet imap.NumSet, flags *imap.StoreFlags, options *imap.StoreOptions) error {
	return nil
}
func (s *c07Sess) Copy(numSet imap.NumSet, dest string) (*imap.CopyData, error) { return nil, nil }

type c07step struct {
	Kind string
	A, B int
}

// expected queue entry of a session
type c07upd struct {
	kind  string // exists expunge fetch flags
	id    int    // message identity (expunge, fetch)
	count int    // exists
}

type c07view struct {
	peer  *rawPeer
	sess  *c07Sess
	open  bool
	view  []int // identities in the client's view
	queue []c07upd
	seen  int // responses already applied
}

func runC07(r *R) {
	t := r.P
	nsess := 1 + t.Choose(4)
	n0 := t.Choose(6)
	nsteps := 1 + t.Choose(40)
	var steps []c07step
	for i := 0; i < nsess; i++ {
		if t.Choose(4) != 0 {
			steps = append(steps, c07step{"open", 0, i})
		}
	}
	for i := 0; i < nsteps; i++ {
		k := []string{"append", "append", "expunge", "expunge", "flags", "mboxflags", "poll", "poll", "poll", "pollnoexp", "pollnoexp", "idle", "open", "close"}[t.Choose(14)]
		steps = append(steps, c07step{k, t.Choose(64), t.Choose(64)})
	}
	cfg := r.SchedConfig()
	var mailbox []int
	nextID := 1
	for i := 0; i < n0; i++ {
		mailbox = append(mailbox, nextID)
		nextID++
	}
	b := &c07Backend{mt: imapserver.NewMailboxTracker(uint32(len(mailbox)))}
	b.count = func() uint32 { return uint32(len(mailbox)) }
	views := make([]*c07view, nsess)
	mutations, polls := 0, 0
	var log *logBuf
	r.Sim(cfg, func() {
		log = &logBuf{}
		srv := imapserver.New(&imapserver.Options{InsecureAuth: true, Logger: log, Caps: imap.CapSet{imap.CapIMAP4rev1: {}}, NewSession: func(*imapserver.Conn) (imapserver.Session, *imapserver.GreetingData, error) {
			s := &c07Sess{b: b}
			b.sess = append(b.sess, s)
			return s, nil, nil
		}})
		ln := r.Net.Listen()
		simrt.GoNamed("server.Serve", func() { srv.Serve(ln) })
		done := make(chan struct{})
		simrt.GoTask("driver", func() {
			defer close(done)
			tagN := 0
			tag := func() string { tagN++; return fmt.Sprintf("x%d", tagN) }
			for i := range views {
				cc, sc := r.Net.Pair(fmt.Sprintf("peer%d", i), fmt.Sprintf("srv%d", i))
				ln.Push(sc)
				p := newRawPeer(r, fmt.Sprintf("peer%d", i), cc)
				p.timeout = 2 * time.Minute
				if !p.waitGreeting() {
					r.Violate("harness", "greeting", "no greeting")
					return
				}
				p.run([]rawCmd{textCmd(tag(), `LOGIN "u" "p"`)})
				views[i] = &c07view{peer: p, sess: b.sess[len(b.sess)-1]}
			}
			// apply applies the untagged updates the peer has read since the last call to the view model
			apply := func(v *c07view, who string, allowExpunge bool) bool {
				for ; v.seen < len(v.peer.resps); v.seen++ {
					rp := v.peer.resps[v.seen]
					if rp.Tag != "*" || !v.open {
						continue
					}
					var got c07upd
					switch {
					case rp.HasNum && rp.Name == "EXISTS":
						got = c07upd{kind: "exists", count: int(rp.Num)}
					case rp.HasNum && rp.Name == "EXPUNGE":
						if !allowExpunge {
							r.Violate("expunge-when-disallowed", "", "%s: '* %d EXPUNGE' was sent while answering a command that does not permit expunge reports", who, rp.Num)
							return false
						}
						if rp.Num == 0 || int(rp.Num) > len(v.view) {
							r.Violate("update-out-of-range", "EXPUNGE", "%s: '* %d EXPUNGE' but the client view has %d messages", who, rp.Num, len(v.view))
							return false
						}
						got = c07upd{kind: "expunge", id: v.view[rp.Num-1]}
					case rp.HasNum && rp.Name == "FETCH":
						if rp.Num == 0 || int(rp.Num) > len(v.view) {
							r.Violate("update-out-of-range", "FETCH", "%s: '* %d FETCH' but the client view has %d messages", who, rp.Num, len(v.view))
							return false
						}
						got = c07upd{kind: "fetch", id: v.view[rp.Num-1]}
					case rp.Name == "FLAGS":
						got = c07upd{kind: "flags"}
					default:
						continue // RECENT, OK codes of SELECT...
					}
					if len(v.queue) == 0 {
						r.Violate("unexpected-update", got.kind, "%s: received %q but no update was pending for this session", who, string(rp.Line.Raw))
						return false
					}
					want := v.queue[0]
					v.queue = v.queue[1:]
					if got.kind != want.kind || (got.kind == "expunge" || got.kind == "fetch") && got.id != want.id || got.kind == "exists" && got.count != want.count {
						r.Violate("update-mismatch", want.kind, "%s: received %q (message identity %d, count %d) but the next queued update is %+v: updates were reordered, lost or mis-numbered", who, string(rp.Line.Raw), got.id, got.count, want)
						return false
					}
					switch got.kind {
					case "exists":
						// the new messages are the ones appended after the last one this view knows
						for len(v.view) < got.count {
							v.view = append(v.view, -1)
						}
					case "expunge":
						idx := int(rp.Num) - 1
						v.view = append(v.view[:idx:idx], v.view[idx+1:]...)
					}
				}
				return true
			}
			check := func(where string) bool {
				for i, v := range views {
					if !v.open || v.sess.st == nil {
						continue
					}
					pos := map[int]int{}
					for p, id := range mailbox {
						pos[id] = p + 1
					}
					cpos := map[int]int{}
					for n, id := range v.view {
						cpos[id] = n + 1
					}
					for n, id := range v.view {
						d := v.sess.st.DecodeSeqNum(uint32(n + 1))
						if int(d) != pos[id] {
							r.Violate("decode-mismatch", "", "%s: session %d: client view %v, mailbox %v: DecodeSeqNum(%d) = %d, the message with that client number is at server position %d (0 = gone)", where, i, v.view, mailbox, n+1, d, pos[id])
							return false
						}
					}
					for p, id := range mailbox {
						e := v.sess.st.EncodeSeqNum(uint32(p + 1))
						if int(e) != cpos[id] {
							r.Violate("encode-mismatch", "", "%s: session %d: client view %v, mailbox %v: EncodeSeqNum(%d) = %d, the message at that server position has client number %d (0 = not announced yet)", where, i, v.view, mailbox, p+1, e, cpos[id])
							return false
						}
					}
				}
				return true
			}
			pendingIDs := make([][]int, nsess) // appended identities not yet announced, per session
			mutate := func(st c07step) {
				switch st.Kind {
				case "append":
					k := 1 + st.A%3
					var ids []int
					for j := 0; j < k; j++ {
						mailbox = append(mailbox, nextID)
						ids = append(ids, nextID)
						nextID++
					}
					for i, v := range views {
						if v.open {
							v.queue = append(v.queue, c07upd{kind: "exists", count: len(mailbox)})
							pendingIDs[i] = append(pendingIDs[i], ids...)
						}
					}
					b.mt.QueueNumMessages(uint32(len(mailbox)))
					r.Tracef("append %d -> mailbox %v", k, mailbox)
				case "expunge":
					if len(mailbox) == 0 {
						return
					}
					idx := st.A % len(mailbox)
					id := mailbox[idx]
					mailbox = append(mailbox[:idx:idx], mailbox[idx+1:]...)
					for _, v := range views {
						if v.open {
							v.queue = append(v.queue, c07upd{kind: "expunge", id: id})
						}
					}
					b.mt.QueueExpunge(uint32(idx + 1))
					r.Tracef("expunge server seq %d (id %d) -> mailbox %v", idx+1, id, mailbox)
				case "flags":
					if len(mailbox) == 0 {
						return
					}
					idx := st.A % len(mailbox)
					src := -1
					if st.B%3 == 0 {
						src = st.B % nsess
					}
					var source *imapserver.SessionTracker
					if src >= 0 && views[src].open {
						source = views[src].sess.st
					}
					for i, v := range views {
						if v.open && !(source != nil && i == src) {
							v.queue = append(v.queue, c07upd{kind: "fetch", id: mailbox[idx]})
						}
					}
					b.mt.QueueMessageFlags(uint32(idx+1), imap.UID(mailbox[idx]), []imap.Flag{imap.FlagSeen}, source)
					r.Tracef("flags of server seq %d (id %d), source session %d", idx+1, mailbox[idx], src)
				case "mboxflags":
					for _, v := range views {
						if v.open {
							v.queue = append(v.queue, c07upd{kind: "flags"})
						}
					}
					b.mt.QueueMailboxFlags([]imap.Flag{imap.FlagSeen, imap.FlagDeleted})
					r.Tracef("mailbox flags changed")
				}
				mutations++
			}
			for si, st := range steps {
				i := st.B % nsess
				v := views[i]
				who := fmt.Sprintf("step %d %s session %d", si, st.Kind, i)
				switch st.Kind {
				case "append", "expunge", "flags", "mboxflags":
					mutate(st)
				case "open":
					if v.open {
						continue
					}
					v.peer.run([]rawCmd{textCmd(tag(), "SELECT box")})
					v.open = true
					v.view = append([]int{}, mailbox...)
					v.queue = nil
					pendingIDs[i] = nil
					v.seen = len(v.peer.resps)
					r.Tracef("%s: view %v", who, v.view)
				case "close":
					if !v.open {
						continue
					}
					v.peer.run([]rawCmd{textCmd(tag(), "UNSELECT")})
					v.open = false
					v.seen = len(v.peer.resps)
				case "poll", "pollnoexp":
					if !v.open {
						continue
					}
					line := "NOOP"
					if st.Kind == "pollnoexp" {
						line = []string{"FETCH 1 FLAGS", "STORE 1 +FLAGS (\\Seen)", "SEARCH ALL"}[st.A%3]
					}
					v.peer.run([]rawCmd{textCmd(tag(), line)})
					polls++
					if !c07apply(r, v, apply, who, st.Kind == "poll", pendingIDs, i) {
						return
					}
					r.Tracef("%s (%s): view %v", who, line, v.view)
				case "idle":
					if !v.open {
						continue
					}
					c := textCmd(tag(), "IDLE")
					c.Cont = []string{"DONE"}
					c.IdleFor = time.Duration(1+st.A%3) * time.Second
					// mutations pushed while the session idles
					k := st.A % 4
					muts := make(chan struct{})
					simrt.GoTask("pusher", func() {
						defer close(muts)
						for j := 0; j < k; j++ {
							simrt.Sleep(200 * time.Millisecond)
							mutate(c07step{[]string{"append", "expunge", "flags"}[(st.A+j)%3], st.A + j, st.B})
						}
					})
					v.peer.run([]rawCmd{c})
					simrt.Recv(muts)
					polls++
					if !c07apply(r, v, apply, who, true, pendingIDs, i) {
						return
					}
					r.Tracef("%s: view %v", who, v.view)
				}
				if !check(who) {
					return
				}
			}
			// final: after a NOOP every open view equals the mailbox
			for i, v := range views {
				if !v.open {
					continue
				}
				v.peer.run([]rawCmd{textCmd(tag(), "NOOP")})
				if !c07apply(r, v, apply, "final NOOP", true, pendingIDs, i) {
					return
				}
				if fmt.Sprint(v.view) != fmt.Sprint(mailbox) {
					r.Violate("view-diverged", "", "after a final NOOP session %d's reconstructed view is %v but the mailbox is %v", i, v.view, mailbox)
					return
				}
			}
			check("final")
			for _, v := range views {
				v.peer.conn.Close()
			}
		})
		waitOrTimeout(done, 24*time.Hour)
		srv.Close()
	})
	if r.Res.Infra != "" {
		return
	}
	r.Nontrivial = mutations > 0 && polls > 0
	r.CheckLiveness(true)
	for _, p := range log.panics() {
		r.Violate("server-panic", panicLogClass(p), "%s", clipStr(p, 2000))
	}
	_ = strings.Join
}

// c07apply applies what the peer has read and resolves the identities of newly announced messages.
func c07apply(r *R, v *c07view, apply func(*c07view, string, bool) bool, who string, allowExpunge bool, pendingIDs [][]int, i int) bool {
	// EXISTS placeholders must be resolved in order as they are created, because a later EXPUNGE may refer to them:
	// process response by response
	for v.seen < len(v.peer.resps) {
		end := v.seen + 1
		saved := v.peer.resps
		v.peer.resps = saved[:end]
		ok := apply(v, who, allowExpunge)
		v.peer.resps = saved
		if !ok {
			return false
		}
		for k := range v.view {
			if v.view[k] == -1 && len(pendingIDs[i]) > 0 {
				v.view[k] = pendingIDs[i][0]
				pendingIDs[i] = pendingIDs[i][1:]
			}
		}
	}
	return true
}
