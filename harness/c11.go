package harness

import (
	"fmt"
	"runtime"
	"strings"
	"time"

	"github.com/emersion/go-imap/v2"
	"github.com/emersion/go-imap/v2/imapclient"
	"verif.local/simrt"
)

// C11 — the client never panics or blows up on arbitrary server bytes.

func init() {
	register(&Prop{
		ID:    "C11",
		Level: "exploration",
		Rule: "case = (set of pending client commands of every kind the client parses data for: FETCH, UID FETCH, LIST, STATUS, SEARCH, UID SEARCH RETURN, SORT, THREAD, GETQUOTA, GETQUOTAROOT, GETMETADATA, NAMESPACE, COPY, MOVE, EXPUNGE, CAPABILITY, ENABLE; a byzantine scripted server that sends grammar-generated responses of all those kinds plus SELECT-time codes, with token- and byte-level mutations, boundary numbers 0 / 2^32-1 / 2^32 / 2^63-1 / overflow, '*' and open ranges in result sets, nesting depths 10..300000 in body structures, threads, envelopes and lists, unmatched continuation requests, unknown tags, literal size lies and literals announcing 2^29..2^63 bytes in buffered-string positions, raw garbage, histories of empty lists followed by nesting at the decoder's cap; optionally LOGIN / UNAUTHENTICATE / LOGIN before anything else; then completes or drops the commands), segmentation and schedule. The caller drains every command and calls every accessor on everything delivered. " +
			"Non-trivial: at least one hostile line was sent while commands were pending. Distinct: distinct event-log hashes.",
		Components:   "real: imapclient.Client and all its response parsers, internal/imapwire decoder, imap number sets (woven); stub: byzantine scripted server, network, clock, scheduler",
		Assumptions:  []string{"time growth is not measured (the clock is simulated): super-linear running time is out of reach of this technique; memory is measured coarsely (a run that allocates more than 256 MiB for less than 4 MiB of server data is an amplification); unbounded recursion is caught as a stack-overflow crash under a 64 MiB stack cap", "enumerating accessors (Nums, AllSeqNums, AllUIDs) are only invoked on sets whose cardinality, computed by the harness in 64-bit arithmetic, is below 10^6"},
		QuickRuns:    12000,
		ThoroughRuns: 400000,
		Run:          runC11,
	})
}

var c11nums = []string{"0", "1", "2", "42", "4294967295", "4294967296", "9223372036854775807", "9223372036854775808", "18446744073709551616", "-1", "00", "1e3", "*", "1:*", "*:1", "0:0", "1:4294967295", "4294967295:*", "5,3,1", "1,", ""}

func c11body(t *simrt.Tape, depth int) string {
	if depth > 0 && t.Choose(3) == 0 {
		var parts []string
		for i, n := 0, 1+t.Choose(3); i < n; i++ {
			parts = append(parts, c11body(t, depth-1))
		}
		ext := ""
		if t.Choose(2) == 0 {
			ext = ` ("boundary" "x") ("attachment" ("filename" "a")) ("en") "loc"`
		}
		return "(" + strings.Join(parts, "") + ` "MIXED"` + ext + ")"
	}
	if depth > 0 && t.Choose(5) == 0 {
		return `("MESSAGE" "RFC822" NIL NIL NIL "7BIT" 100 ` + c11envelope(t) + " " + c11body(t, depth-1) + " 5)"
	}
	ext := ""
	if t.Choose(2) == 0 {
		ext = ` NIL ("inline" ("filename" "=?utf-8?q?f=C3=A9?=")) NIL NIL`
	}
	return `("TEXT" "PLAIN" ("CHARSET" "US-ASCII" "NAME" "n") NIL "desc" "7BIT" ` + c11nums[t.Choose(5)] + " 3" + ext + ")"
}

func c11envelope(t *simrt.Tape) string {
	addr := `(("Name" NIL "mbox" "host"))`
	if t.Choose(4) == 0 {
		addr = "NIL"
	}
	return `("Wed, 17 Jul 1996 02:23:25 -0700 (PDT)" "=?utf-8?q?subj?=" ` + addr + " " + addr + " " + addr + " " + addr + ` NIL NIL "<r@x>" "<B27397-0100000@cac.washington.edu>")`
}

// c11line generates one (valid-looking) response of a random kind.
func c11line(t *simrt.Tape, tags []string) string {
	n := func() string { return c11nums[t.Choose(len(c11nums))] }
	small := func() string { return fmt.Sprint(1 + t.Choose(9)) }
	// mostly valid: lines with many numbers would otherwise almost never be well formed, and a well-formed
	// response arriving at an unexpected moment is hostile too
	nv := func() string {
		switch t.Choose(6) {
		case 0:
			return n()
		case 1, 2: // around the top of number64 (an unsigned 63-bit integer)
			return []string{"9223372036854775807", "9223372036854775808", "18446744073709551615", "9223372036854775809"}[t.Choose(4)]
		}
		return fmt.Sprint(t.Choose(50))
	}
	switch t.Choose(39) {
	case 35, 36:
		// a well-formed FETCH response with more items than the client's per-message buffer, none of them a literal
		k := []int{31, 32, 33, 34, 70}[t.Choose(5)]
		var items []string
		for i := 0; i < k; i++ {
			items = append(items, []string{fmt.Sprintf("BINARY.SIZE[%d] %d", i+1, i), "FLAGS (\\Seen)", fmt.Sprintf("BODY[%d] NIL", i+1), "UID 7"}[t.Choose(4)])
		}
		return "* " + small() + " FETCH (" + strings.Join(items, " ") + ")"
	case 32, 33, 34:
		// a literal announcing an enormous size in a position where the client buffers the string; the data never comes
		size := []string{"536870912", "2147483648", "4294967296", "1099511627776", "9223372036854775807", "99999999999999999999"}[t.Choose(6)]
		lit := "{" + size + "}\r\n"
		return []string{"* STATUS " + lit + "box (MESSAGES 1)", `* LIST () "/" ` + lit + "name", "* QUOTA " + lit + "root (STORAGE 1 2)",
			"* NAMESPACE ((" + lit + `pfx "/")) NIL NIL`, "* 1 FETCH (ENVELOPE (" + lit + "date NIL NIL NIL NIL NIL NIL NIL NIL NIL))", "* ESEARCH (TAG " + lit + "T3) ALL 1",
			"* METADATA " + lit + "INBOX (/private/x NIL)", `* METADATA "INBOX" (/private/x ` + lit + "v)", "* OK [BADCHARSET (" + lit + "x)] text", "* 1 FETCH (BODY (\"TEXT\" " + lit + "plain"}[t.Choose(10)]
	case 0:
		return "* " + n() + " " + anyCase(t, "EXISTS")
	case 1:
		// (zero is the invalid number that matters most here; response names are case-insensitive)
		num := n()
		if t.Choose(3) == 0 {
			num = "0"
		}
		return "* " + num + " " + anyCase(t, "EXPUNGE")
	case 2:
		return "* " + n() + " " + anyCase(t, "RECENT")
	case 3, 4:
		items := []string{}
		for i, k := 0, 1+t.Choose(5); i < k; i++ {
			switch t.Choose(11) {
			case 0:
				items = append(items, "UID "+n())
			case 1:
				items = append(items, `FLAGS (\Seen \Answered custom)`)
			case 2:
				items = append(items, `INTERNALDATE "17-Jul-1996 02:44:25 -0700"`)
			case 3:
				items = append(items, "RFC822.SIZE "+nv())
			case 4:
				items = append(items, "ENVELOPE "+c11envelope(t))
			case 5:
				items = append(items, "BODYSTRUCTURE "+c11body(t, 3))
			case 6:
				items = append(items, "BODY "+c11body(t, 2))
			case 7:
				lit := strings.Repeat("x", t.Choose(40))
				items = append(items, fmt.Sprintf("BODY[%s] {%d}\r\n%s", []string{"", "HEADER", "1.2.TEXT", "HEADER.FIELDS (Subject From)", "1.MIME"}[t.Choose(5)], len(lit), lit))
			case 8:
				items = append(items, `BODY[]<`+n()+`> "partial"`)
			case 9:
				items = append(items, "BINARY.SIZE["+small()+"] "+n())
			default:
				items = append(items, "MODSEQ ("+n()+")")
			}
		}
		num := n()
		if t.Choose(4) == 0 {
			num = "0"
		}
		return "* " + num + " " + anyCase(t, "FETCH") + " (" + strings.Join(items, " ") + ")"
	case 5:
		return `* LIST (\HasNoChildren \Marked) "/" "box` + small() + `"` + []string{"", ` ("CHILDINFO" ("SUBSCRIBED"))`, ` ("OLDNAME" ("old"))`}[t.Choose(3)]
	case 6:
		return `* LIST () NIL INBOX`
	case 7:
		return "* STATUS box" + small() + " (MESSAGES " + nv() + " UIDNEXT " + nv() + " UIDVALIDITY " + nv() + " UNSEEN " + nv() + " SIZE " + nv() + " DELETED " + nv() + ")"
	case 8, 9:
		s := "* SEARCH"
		for i, k := 0, t.Choose(5); i < k; i++ {
			s += " " + n()
		}
		return s
	case 10, 11:
		tag := "T1"
		if len(tags) > 0 {
			tag = tags[t.Choose(len(tags))]
		}
		return `* ESEARCH (TAG "` + tag + `")` + []string{"", " UID"}[t.Choose(2)] + " ALL " + n() + []string{"", " MIN " + n(), " MAX " + n() + " COUNT " + n()}[t.Choose(3)]
	case 12:
		s := "* SORT"
		for i, k := 0, t.Choose(5); i < k; i++ {
			s += " " + n()
		}
		return s
	case 13:
		return "* THREAD (2)(3 6 (4 23)(44 7 96))" + []string{"", "(" + n() + ")", "((1)(2))"}[t.Choose(3)]
	case 14:
		return `* QUOTA "root" (STORAGE ` + nv() + " " + nv() + " MESSAGE 1 2)"
	case 15:
		return `* QUOTAROOT INBOX "root" "other"`
	case 16:
		return `* METADATA "INBOX" (/private/comment "My comment" /shared/x NIL /private/lit {3}` + "\r\nabc)"
	case 17:
		return `* NAMESPACE (("" "/")("#x" NIL)) NIL (("Shared/" "/" "X-PARAM" ("a" "b")))`
	case 18:
		return "* CAPABILITY IMAP4rev1 IMAP4rev2 LITERAL- AUTH=PLAIN QUOTA=RES-STORAGE THREAD=REFERENCES APPENDLIMIT=" + n()
	case 19:
		return "* ENABLED UTF8=ACCEPT IMAP4rev2"
	case 20:
		return `* FLAGS (\Seen \* bad\flag)`
	case 21:
		return "* OK [" + []string{"PERMANENTFLAGS (\\Seen \\*)", "UIDNEXT " + n(), "UIDVALIDITY " + n(), "HIGHESTMODSEQ " + n(), "COPYUID " + n() + " " + n() + " " + n(), "APPENDUID " + n() + " " + n(), "CLOSED", "UNKNOWN-CODE x y z", "CAPABILITY IMAP4rev1"}[t.Choose(9)] + "] text"
	case 22:
		return "* " + []string{"NO", "BAD", "OK", "PREAUTH"}[t.Choose(4)] + []string{"", " text", " [ALERT] text"}[t.Choose(3)]
	case 23:
		return "+ " + []string{"", "idling", "dGVzdA=="}[t.Choose(3)]
	case 24:
		tag := "T99"
		if len(tags) > 0 && t.Choose(2) == 0 {
			tag = tags[t.Choose(len(tags))]
		}
		return tag + " " + []string{"OK", "NO", "BAD", "WHAT"}[t.Choose(4)] + []string{" done", "", " [COPYUID 1 " + n() + " " + n() + "] x", " [APPENDUID " + n() + " " + n() + "] x"}[t.Choose(4)]
	case 25:
		return "* " + n() + " FETCH (" + []string{"FLAGS", "UID", "BODY[", "ENVELOPE (", "BODYSTRUCTURE ((", "X-UNKNOWN 1"}[t.Choose(6)]
	case 26:
		return "* BYE going away"
	case 27:
		return "* VANISHED (EARLIER) 1:3"
	case 28:
		return "* " + small() + ` FETCH (BINARY[1] ~{2}` + "\r\nab BINARY[2] NIL)"
	case 29, 30:
		// nesting far beyond any sane depth, in every recursive position
		depth := []int{50, 999, 1001, 20000, 300000}[t.Choose(5)]
		open := strings.Repeat("(", depth)
		if t.Choose(4) == 0 {
			// a chain of message/rfc822 parts, each with a complete envelope: well-formed at every level
			d := []int{90, 150, 1100, 1500, 6000}[t.Choose(5)]
			level := `("MESSAGE" "RFC822" NIL NIL NIL "7BIT" 1 (NIL NIL NIL NIL NIL NIL NIL NIL NIL NIL) `
			inner := `("TEXT" "PLAIN" NIL NIL NIL "7BIT" 1 1)`
			if t.Choose(3) == 0 { // alternate with multiparts
				level = `(("MESSAGE" "RFC822" NIL NIL NIL "7BIT" 1 (NIL NIL NIL NIL NIL NIL NIL NIL NIL NIL) `
				return "* 1 FETCH (BODYSTRUCTURE " + strings.Repeat(level, d) + inner + strings.Repeat(` 1) "MIXED")`, d) + ")"
			}
			tail := strings.Repeat(" 1)", d)
			if t.Choose(4) == 0 {
				tail = "" // unterminated
			}
			return "* 1 FETCH (" + []string{"BODYSTRUCTURE ", "BODY "}[t.Choose(2)] + strings.Repeat(level, d) + inner + tail + ")"
		}
		return []string{"* 1 FETCH (BODYSTRUCTURE " + open, "* 1 FETCH (BODY " + open + `"TEXT" "PLAIN" NIL NIL NIL "7BIT" 1 1` + strings.Repeat(")", depth), "* THREAD " + open + "1" + strings.Repeat(")", depth), "* 1 FETCH (ENVELOPE " + open, `* LIST ` + open, "* NAMESPACE " + open, `* METADATA "INBOX" ` + open, "* STATUS x " + open, "* 1 FETCH (BODYSTRUCTURE " + strings.Repeat(`("MESSAGE" "RFC822" NIL NIL NIL "7BIT" 1 NIL `, depth/8)}[t.Choose(9)]
	case 37, 38:
		// nesting right at the decoder's cap of 1000, after a history of empty lists on the same connection (a depth
		// counter that is not restored exactly drifts with the history)
		k := t.Choose(40)
		empties := []string{"* FLAGS ()", `* LIST () "/" x`, "* 1 FETCH (FLAGS ())", "* SEARCH", `* LIST () NIL ""`}
		var sb strings.Builder
		for i := 0; i < k; i++ {
			sb.WriteString(empties[t.Choose(len(empties))] + "\r\n")
		}
		depth := 996 + t.Choose(10) + []int{0, k / 2, k}[t.Choose(3)]
		open := strings.Repeat("(", depth)
		if t.Choose(3) == 0 {
			return sb.String() + "* 1 FETCH (BODY " + open + `"TEXT" "PLAIN" NIL NIL NIL "7BIT" 1 1` + strings.Repeat(")", depth)
		}
		return sb.String() + "* THREAD " + open + "1" + strings.Repeat(")", depth)
	default:
		return "* OK text"
	}
}

// anyCase renders a keyword in upper, lower or mixed case.
func anyCase(t *simrt.Tape, w string) string {
	switch t.Choose(4) {
	case 1:
		return strings.ToLower(w)
	case 2:
		return w[:1] + strings.ToLower(w[1:])
	}
	return w
}

func c11mutate(t *simrt.Tape, s string) string {
	if len(s) == 0 {
		return s
	}
	switch t.Choose(11) {
	case 10: // response names and keywords are case-insensitive: change the case of one word
		f := strings.Fields(s)
		for k := 0; k < len(f); k++ {
			i := (k + t.Choose(len(f))) % len(f)
			if w := f[i]; len(w) > 1 && w[0] >= 'A' && w[0] <= 'Z' {
				if t.Choose(2) == 0 {
					f[i] = strings.ToLower(w)
				} else {
					f[i] = w[:1] + strings.ToLower(w[1:])
				}
				break
			}
		}
		return strings.Join(f, " ")
	case 0: // truncate
		return s[:t.Choose(len(s))]
	case 1: // flip a byte
		b := []byte(s)
		b[t.Choose(len(b))] = byte(t.Choose(256))
		return string(b)
	case 2: // duplicate a token
		f := strings.Fields(s)
		i := t.Choose(len(f))
		return strings.Join(append(f[:i+1:i+1], f[i:]...), " ")
	case 3: // drop a token
		f := strings.Fields(s)
		i := t.Choose(len(f))
		return strings.Join(append(f[:i:i], f[i+1:]...), " ")
	case 4: // deep nesting spliced in
		depth := []int{10, 999, 1000, 1001, 5000, 300000}[t.Choose(6)]
		i := t.Choose(len(s))
		return s[:i] + strings.Repeat("(", depth) + s[i:]
	case 5: // literal size lie
		return strings.Replace(s, "{", "{9", 1)
	case 6: // replace a number
		f := strings.Fields(s)
		for k := 0; k < len(f); k++ {
			i := (k + t.Choose(len(f))) % len(f)
			if len(f[i]) > 0 && f[i][0] >= '0' && f[i][0] <= '9' {
				f[i] = c11nums[t.Choose(len(c11nums))]
				break
			}
		}
		return strings.Join(f, " ")
	case 7:
		return s + " trailing junk"
	case 8:
		i := t.Choose(len(s))
		return s[:i] + []string{"\x00", "\"", "\\", ")", "]", "{5}\r\nab", "NIL", " "}[t.Choose(8)] + s[i:]
	default:
		return s
	}
}

type c11pending struct {
	name    string
	consume func() (err error, problems []string)
}

// setProblems checks a result set against the protocol invariants and enumerates it when that is safe.
func setProblems(ns imap.NumSet, what string) []string {
	var out []string
	if ns == nil {
		return nil
	}
	card := uint64(0)
	dynamic := false
	zero := false
	check := func(start, stop uint32) {
		if start == 0 || stop == 0 {
			// Start==0 with Stop==0 encodes '*'; either end 0 is either '*' or a literal zero
			dynamic = true
			if start == 0 && stop != 0 {
				zero = true
			}
			return
		}
		card += uint64(stop) - uint64(start) + 1
	}
	switch s := ns.(type) {
	case imap.SeqSet:
		for _, r := range s {
			check(r.Start, r.Stop)
		}
		if !dynamic && card < 1000000 {
			nums, ok := s.Nums()
			if !ok || uint64(len(nums)) != card {
				out = append(out, fmt.Sprintf("%s: Nums() returned %d numbers ok=%v for a static set of cardinality %d (%s)", what, len(nums), ok, card, clipStr(s.String(), 80)))
			}
		}
		_ = s.Dynamic()
		_ = s.Contains(1)
	case imap.UIDSet:
		for _, r := range s {
			check(uint32(r.Start), uint32(r.Stop))
		}
		if !dynamic && card < 1000000 {
			nums, ok := s.Nums()
			if !ok || uint64(len(nums)) != card {
				out = append(out, fmt.Sprintf("%s: Nums() returned %d numbers ok=%v for a static set of cardinality %d (%s)", what, len(nums), ok, card, clipStr(s.String(), 80)))
			}
		}
		_ = s.Dynamic()
		_ = s.Contains(1)
	}
	_ = ns.String()
	if dynamic {
		out = append(out, fmt.Sprintf("%s: a result set containing '*' or 0 was delivered: %s (zero=%v)", what, clipStr(ns.String(), 80), zero))
	}
	return out
}

// bodyDepth is the nesting depth of a delivered body structure (multipart children and embedded messages).
func bodyDepth(bs imap.BodyStructure) int {
	switch b := bs.(type) {
	case *imap.BodyStructureMultiPart:
		max := 0
		for _, c := range b.Children {
			if d := bodyDepth(c); d > max {
				max = d
			}
		}
		return max + 1
	case *imap.BodyStructureSinglePart:
		if b.MessageRFC822 != nil && b.MessageRFC822.BodyStructure != nil {
			return bodyDepth(b.MessageRFC822.BodyStructure) + 1
		}
		return 1
	}
	return 0
}

func walkBody(bs imap.BodyStructure) {
	if bs == nil {
		return
	}
	bs.Walk(func(path []int, part imap.BodyStructure) bool {
		_ = part.MediaType()
		_ = part.Disposition()
		if sp, ok := part.(*imap.BodyStructureSinglePart); ok {
			_ = sp.Filename()
		}
		return true
	})
}

// walkThread visits a delivered thread tree; it reports whether a message number 0 occurs in it.
func walkThread(d imapclient.ThreadData, depth int) (zero bool) {
	for _, n := range d.Chain {
		if n == 0 {
			zero = true
		}
	}
	for _, s := range d.SubThreads {
		if walkThread(s, depth+1) {
			zero = true
		}
	}
	return zero
}

// threadDepth is the nesting depth of a delivered thread (iterative on purpose: the harness must survive what it judges).
func threadDepth(d imapclient.ThreadData) int {
	type item struct {
		t *imapclient.ThreadData
		d int
	}
	max := 0
	stack := []item{{&d, 1}}
	for len(stack) > 0 {
		it := stack[len(stack)-1]
		stack = stack[:len(stack)-1]
		if it.d > max {
			max = it.d
		}
		for i := range it.t.SubThreads {
			stack = append(stack, item{&it.t.SubThreads[i], it.d + 1})
		}
	}
	return max
}

func runC11(r *R) {
	t := r.P
	netMode := t.Choose(3)
	nlines := 1 + t.Choose(8)
	mutateP := []int{0, 3, 10}[t.Choose(3)] // mutate 0%, 30% or 100% of the lines
	ending := t.Choose(3)                   // 0 complete all commands, 1 close, 2 stay silent (caller closes)
	kinds := []string{"fetch", "uidfetch", "list", "status", "search", "esearch", "sort", "thread", "quota", "quotaroot", "metadata", "namespace", "copy", "move", "expunge", "capability", "enable", "store"}
	var chosen []string
	for i, n := 0, 1+t.Choose(6); i < n; i++ {
		chosen = append(chosen, kinds[t.Choose(len(kinds))])
	}
	var lines []string
	tagsGuess := []string{"T3", "T4", "T5", "T6", "T7", "T8"}
	for i := 0; i < nlines; i++ {
		l := c11line(t, tagsGuess)
		if t.Choose(10) < mutateP {
			l = c11mutate(t, l)
		}
		lines = append(lines, l)
	}
	// response codes on the tagged completions (ending 0): COPYUID / APPENDUID with hostile sets
	var completions []string
	for _, k := range chosen {
		sets := []string{"1", "1:3", "5,7", "4294967295", "*", "1:*", "3:*", "*:2", "7,9:*", "0", "$", "1:0", ""}
		pick := t.Choose(4)
		if (k == "copy" || k == "move") && pick > 0 {
			pick = 0
		}
		switch pick {
		case 0:
			completions = append(completions, " [COPYUID "+c11nums[t.Choose(5)]+" "+sets[t.Choose(len(sets))]+" "+sets[t.Choose(len(sets))]+"] x")
		case 1:
			completions = append(completions, " [APPENDUID "+c11nums[t.Choose(len(c11nums))]+" "+sets[t.Choose(len(sets))]+"] x")
		default:
			completions = append(completions, " done")
		}
	}
	if t.Choose(12) == 0 {
		g := make([]byte, 1+t.Choose(200))
		for i := range g {
			g[i] = byte(t.Choose(256))
		}
		lines = append(lines, string(g))
	}
	reauth := t.Choose(5) == 0
	cfg := r.SchedConfig()
	for _, l := range lines {
		r.Tracef("hostile line: %q", clipStr(l, 400))
	}
	r.Tracef("pending commands: %v, ending=%d", chosen, ending)
	var closeErr error
	hostileBytes := 0
	for _, l := range lines {
		hostileBytes += len(l)
	}
	// hundreds of kilobytes of hostile data through a 200-byte socket buffer only burn scheduler steps (and real time:
	// the run would hit the step bound or the real-time watchdog on a busy machine): large volumes travel with short
	// reads only, and the step bound follows the volume
	if hostileBytes > 60000 && netMode == 2 {
		netMode = 1
	}
	cfg.MaxSteps = 400000 + 4*hostileBytes
	var ms0, ms1 runtime.MemStats
	runtime.ReadMemStats(&ms0)
	defer func() {
		// memory the whole run allocated, against the size of what the server sent: an allocation driven by a
		// number in the input instead of by the input's size is the amplification the property forbids
		runtime.ReadMemStats(&ms1)
		alloc := ms1.TotalAlloc - ms0.TotalAlloc
		mb := alloc >> 20
		switch {
		case mb >= 64:
			r.Probes["alloc_mb_64_or_more"]++
		case mb >= 16:
			r.Probes["alloc_mb_16_to_63"]++
		}
		if alloc > 256<<20 && uint64(hostileBytes) < 4<<20 && r.Res.Infra == "" {
			r.Violate("memory-amplification", "", "the run allocated %d MiB although the server sent only %d bytes of hostile data (an allocation sized by a number in the input)", mb, hostileBytes)
		}
	}()
	r.Sim(cfg, func() {
		cc, sc := r.Net.Pair("cli", "srv")
		switch netMode {
		case 1:
			cc.SetShortReads(true)
		case 2:
			sc.SetSendBuffer(200)
			cc.SetShortReads(true)
		}
		srv := newScriptSrv(r, sc)
		srvDone := make(chan struct{})
		simrt.GoTask("server", func() {
			defer close(srvDone)
			defer sc.Close()
			srv.send("* OK [CAPABILITY IMAP4rev1 LITERAL- QUOTA METADATA SORT THREAD=REFERENCES MOVE UIDPLUS ESEARCH NAMESPACE ENABLE UNAUTHENTICATE] hostile server ready")
			var tags []string
			capLine := "IMAP4rev1 LITERAL- QUOTA METADATA SORT THREAD=REFERENCES MOVE UIDPLUS ESEARCH NAMESPACE ENABLE UNAUTHENTICATE"
			selected := false
			for i := 0; i < len(chosen); {
				c, ok := srv.readCommand()
				if !ok {
					return
				}
				if !selected { // the prelude: LOGIN [UNAUTHENTICATE LOGIN] SELECT, with CAPABILITY refreshes in between
					switch c.Name {
					case "CAPABILITY":
						srv.send("* CAPABILITY "+capLine, c.Tag+" OK done")
					case "SELECT":
						srv.send("* 7 EXISTS", "* FLAGS (\\Seen)")
						srv.send(c.Tag + " OK fine")
						selected = true
					case "UNAUTHENTICATE":
						srv.send(c.Tag + " OK back to square one")
					default:
						srv.send(c.Tag + " OK [CAPABILITY " + capLine + "] fine")
					}
					continue
				}
				tags = append(tags, c.Tag)
				i++
			}
			for _, l := range lines {
				if srv.sendRaw([]byte(l+"\r\n")) != nil {
					return
				}
			}
			r.Nontrivial = true
			switch ending {
			case 0:
				for i, tg := range tags {
					if srv.send(tg+" OK"+completions[i%len(completions)]) != nil {
						return
					}
				}
				// stay until the client goes away
				srv.timeout = 3 * time.Hour
				for {
					if _, ok := srv.readCommand(); !ok {
						return
					}
				}
			case 1:
				return
			default:
				srv.timeout = 3 * time.Hour
				for {
					if _, ok := srv.readCommand(); !ok {
						return
					}
				}
			}
		})
		// unilateral data goes to a handler: invalid numbers must not reach it either
		c := imapclient.New(cc, &imapclient.Options{UnilateralDataHandler: &imapclient.UnilateralDataHandler{
			Expunge: func(seqNum uint32) {
				if seqNum == 0 {
					r.Violate("invalid-data-delivered", "unilateral EXPUNGE", "the unilateral-data handler received an EXPUNGE of sequence number 0")
				}
			},
			Fetch: func(msg *imapclient.FetchMessageData) {
				if msg.SeqNum == 0 {
					r.Violate("invalid-data-delivered", "unilateral FETCH", "the unilateral-data handler received FETCH data for sequence number 0")
				}
				for {
					item := msg.Next()
					if item == nil {
						break
					}
					if sz, ok := item.(imapclient.FetchItemDataRFC822Size); ok && sz.Size < 0 {
						r.Violate("invalid-data-delivered", "unilateral FETCH", "the unilateral-data handler received RFC822.SIZE %d (a number64 at or above 2^63 was accepted)", sz.Size)
					}
				}
			},
		}})
		callerDone := make(chan struct{})
		simrt.GoTask("caller", func() {
			defer close(callerDone)
			if c.Login("u", "p").Wait() != nil {
				return
			}
			if reauth {
				// RFC 8437: back to the not authenticated state and in again; whatever had been enabled is off
				if c.Unauthenticate().Wait() != nil || c.Login("u", "p").Wait() != nil {
					return
				}
			}
			if _, err := c.Select("INBOX", nil).Wait(); err != nil {
				return
			}
			// every pending command is consumed by its own goroutine: with a server that may answer in
			// any order, a caller that waits for one command while another one's streamed data is
			// unread would itself block the reader (documented contract of streaming commands)
			var dones []chan struct{}
			for _, k := range chosen {
				p := c11Issue(c, k)
				d := make(chan struct{})
				dones = append(dones, d)
				simrt.GoTask("consume-"+p.name, func() {
					defer close(d)
					err, problems := p.consume()
					r.Tracef("%s -> err=%v", p.name, clipErr(err))
					for _, pr := range problems {
						r.Violate("invalid-data-delivered", p.name, "%s: %s", p.name, pr)
					}
					if err != nil && strings.Contains(err.Error(), "panic") {
						r.Violate("reader-panic", readerPanicClass(err.Error()), "%s failed with a recovered panic of the read goroutine: %s", p.name, clipStr(err.Error(), 1500))
					}
				})
			}
			for _, d := range dones {
				waitOrTimeout(d, 12*time.Hour)
			}
		})
		closerDone := make(chan struct{})
		simrt.GoTask("closer", func() {
			defer close(closerDone)
			if !waitOrTimeout(callerDone, 2*time.Hour) {
				r.Probe("closed_after_silence")
			}
			closeErr = c.Close()
		})
		waitOrTimeout(callerDone, 12*time.Hour)
		waitOrTimeout(closerDone, time.Hour)
		waitOrTimeout(srvDone, 4*time.Hour)
	})
	if r.Res.Infra != "" {
		return
	}
	r.CheckLiveness(true)
	if closeErr != nil && strings.Contains(closeErr.Error(), "panic") {
		r.Violate("reader-panic", readerPanicClass(closeErr.Error()), "Client.Close reports a recovered panic of the read goroutine: %s", clipStr(closeErr.Error(), 1500))
	}
}

func clipErr(err error) string {
	if err == nil {
		return "<nil>"
	}
	return clipStr(err.Error(), 200)
}

func readerPanicClass(s string) string {
	line := s
	if i := strings.Index(line, "\n"); i >= 0 {
		line = line[:i]
	}
	if i := strings.Index(line, "panic reading response: "); i >= 0 {
		line = line[i+len("panic reading response: "):]
	}
	fn := ""
	for _, l := range strings.Split(s, "\n") {
		if strings.HasPrefix(l, "github.com/emersion/go-imap/") && !strings.Contains(l, ".read.func") && !strings.Contains(l, "(*Client).read(") {
			f := l
			if j := strings.LastIndex(f, "("); j > 0 {
				f = f[:j]
			}
			fn = normFunc(f[strings.LastIndex(f, "/")+1:])
			break
		}
	}
	return stripNumbers(clipStr(line, 100)) + " in " + fn
}

func c11Issue(c *imapclient.Client, kind string) c11pending {
	all := imap.SeqSet{}
	all.AddRange(1, 0)
	allU := imap.UIDSet{}
	allU.AddRange(1, 0)
	fetchCheck := func(x *imapclient.FetchCommand, uidKind bool) func() (error, []string) {
		return func() (error, []string) {
			msgs, err := x.Collect()
			var pr []string
			for _, m := range msgs {
				if m.SeqNum == 0 {
					pr = append(pr, "FETCH message with sequence number 0 delivered")
				}
				if uidKind && m.UID == 0 && err == nil {
					pr = append(pr, "UID FETCH result with UID 0 delivered")
				}
				if m.RFC822Size < 0 {
					pr = append(pr, fmt.Sprintf("FETCH RFC822.SIZE %d delivered (a number64 at or above 2^63 was accepted)", m.RFC822Size))
				}
				walkBody(m.BodyStructure)
				// the property's own bound: nesting beyond the wire decoder's cap (1000 levels) is never delivered
				if d := bodyDepth(m.BodyStructure); d > 1000 {
					pr = append(pr, fmt.Sprintf("a body structure nested %d levels deep was delivered (the decoder's nesting cap is 1000)", d))
				}
				if m.Envelope != nil {
					for _, a := range m.Envelope.From {
						_ = a.Addr()
						_ = a.IsGroupStart()
						_ = a.IsGroupEnd()
					}
				}
				for k, v := range m.BodySection {
					_, _ = k.Specifier, len(v)
				}
				for _, bs := range m.BinarySectionSize {
					_ = bs.Size
				}
			}
			return err, pr
		}
	}
	switch kind {
	case "fetch":
		x := c.Fetch(all, &imap.FetchOptions{Flags: true, Envelope: true, BodyStructure: &imap.FetchItemBodyStructure{Extended: true}, BodySection: []*imap.FetchItemBodySection{{}}})
		return c11pending{"FETCH", fetchCheck(x, false)}
	case "uidfetch":
		x := c.Fetch(allU, &imap.FetchOptions{Flags: true, UID: true})
		return c11pending{"UID FETCH", fetchCheck(x, true)}
	case "store":
		x := c.Store(all, &imap.StoreFlags{Op: imap.StoreFlagsAdd, Flags: []imap.Flag{imap.FlagSeen}}, nil)
		return c11pending{"STORE", fetchCheck(x, false)}
	case "list":
		x := c.List("", "*", &imap.ListOptions{ReturnStatus: &imap.StatusOptions{NumMessages: true}})
		return c11pending{"LIST", func() (error, []string) {
			l, err := x.Collect()
			for _, d := range l {
				_ = d.Mailbox
				if d.Status != nil && d.Status.NumMessages != nil {
					_ = *d.Status.NumMessages
				}
			}
			return err, nil
		}}
	case "status":
		x := c.Status("box1", &imap.StatusOptions{NumMessages: true, UIDNext: true})
		return c11pending{"STATUS", func() (error, []string) {
			d, err := x.Wait()
			var pr []string
			if d != nil && d.NumMessages != nil {
				_ = *d.NumMessages
			}
			if d != nil && d.Size != nil && *d.Size < 0 {
				pr = append(pr, fmt.Sprintf("STATUS SIZE %d delivered (a number64 at or above 2^63 was accepted)", *d.Size))
			}
			return err, pr
		}}
	case "search", "esearch":
		var x *imapclient.SearchCommand
		name := "SEARCH"
		if kind == "search" {
			x = c.Search(&imap.SearchCriteria{}, nil)
		} else {
			x, name = c.UIDSearch(&imap.SearchCriteria{}, &imap.SearchOptions{ReturnAll: true, ReturnMin: true, ReturnCount: true}), "UID SEARCH RETURN"
		}
		return c11pending{name, func() (error, []string) {
			d, err := x.Wait()
			var pr []string
			if err == nil && d != nil {
				pr = setProblems(d.All, name+" result")
			}
			return err, pr
		}}
	case "sort":
		x := c.Sort(&imapclient.SortOptions{SearchCriteria: &imap.SearchCriteria{}, SortCriteria: []imapclient.SortCriterion{{Key: imapclient.SortKeyDate}}})
		return c11pending{"SORT", func() (error, []string) {
			nums, err := x.Wait()
			var pr []string
			if err == nil {
				for _, n := range nums {
					if n == 0 {
						pr = append(pr, "SORT result containing 0 delivered")
						break
					}
				}
			}
			return err, pr
		}}
	case "thread":
		x := c.Thread(&imapclient.ThreadOptions{Algorithm: imap.ThreadReferences, SearchCriteria: &imap.SearchCriteria{}})
		return c11pending{"THREAD", func() (error, []string) {
			d, err := x.Wait()
			var pr []string
			for _, th := range d {
				if walkThread(th, 0) {
					pr = append(pr, "THREAD result containing message number 0 delivered")
				}
				// the property's own bound: nesting beyond the wire decoder's cap (1000 levels) is never delivered
				if dp := threadDepth(th); dp > 1000 {
					pr = append(pr, fmt.Sprintf("a thread nested %d levels deep was delivered (the decoder's nesting cap is 1000)", dp))
				}
			}
			return err, pr
		}}
	case "quota":
		x := c.GetQuota("root")
		return c11pending{"GETQUOTA", func() (error, []string) {
			d, err := x.Wait()
			var pr []string
			if d != nil {
				neg := false
				for _, v := range d.Resources {
					if v.Usage < 0 || v.Limit < 0 {
						neg = true
					}
				}
				if neg {
					pr = append(pr, "QUOTA resource with a negative usage or limit delivered (a number64 at or above 2^63 was accepted)")
				}
			}
			return err, pr
		}}
	case "quotaroot":
		x := c.GetQuotaRoot("INBOX")
		return c11pending{"GETQUOTAROOT", func() (error, []string) { _, err := x.Wait(); return err, nil }}
	case "metadata":
		x := c.GetMetadata("INBOX", []string{"/private/comment"}, nil)
		return c11pending{"GETMETADATA", func() (error, []string) {
			d, err := x.Wait()
			if d != nil {
				for k, v := range d.Entries {
					if v != nil {
						_ = len(*v)
					}
					_ = k
				}
			}
			return err, nil
		}}
	case "namespace":
		x := c.Namespace()
		return c11pending{"NAMESPACE", func() (error, []string) { _, err := x.Wait(); return err, nil }}
	case "copy":
		x := c.Copy(all, "Archive")
		return c11pending{"COPY", func() (error, []string) {
			d, err := x.Wait()
			var pr []string
			if err == nil && d != nil {
				pr = append(setProblems(d.SourceUIDs, "COPYUID source set"), setProblems(d.DestUIDs, "COPYUID destination set")...)
			}
			return err, pr
		}}
	case "move":
		x := c.Move(all, "Archive")
		return c11pending{"MOVE", func() (error, []string) {
			d, err := x.Wait()
			var pr []string
			if err == nil && d != nil && d.SourceUIDs != nil {
				pr = append(setProblems(d.SourceUIDs, "MOVE COPYUID source set"), setProblems(d.DestUIDs, "MOVE COPYUID destination set")...)
			}
			return err, pr
		}}
	case "expunge":
		x := c.Expunge()
		return c11pending{"EXPUNGE", func() (error, []string) {
			nums, err := x.Collect()
			var pr []string
			for _, n := range nums {
				if n == 0 {
					pr = append(pr, "EXPUNGE of sequence number 0 delivered")
				}
			}
			return err, pr
		}}
	case "capability":
		x := c.Capability()
		return c11pending{"CAPABILITY", func() (error, []string) {
			caps, err := x.Wait()
			if caps != nil {
				_ = caps.Has(imap.CapIMAP4rev2)
				_, _ = caps.AppendLimit()
				_ = caps.AuthMechanisms()
				_ = caps.QuotaResourceTypes()
				_ = caps.ThreadAlgorithms()
			}
			return err, nil
		}}
	default:
		x := c.Enable(imap.CapUTF8Accept)
		return c11pending{"ENABLE", func() (error, []string) { _, err := x.Wait(); return err, nil }}
	}
}
