package harness

import (
	"bytes"
	"fmt"

	"github.com/emersion/go-imap/v2"
	"strconv"
	"strings"
	"time"

	"github.com/emersion/go-imap/v2/imapserver"
	"verif.local/simrt"
	"verif.local/simrt/simnet"
)

// C06 — the server survives arbitrary input and disconnects, cleaning up exactly once.

const (
	c06Corpus   = 80
	c06SweepMax = 900
	c06Kinds    = 3 // FIN, RST, stall-until-server-timeout
)

func init() {
	register(&Prop{
		ID:    "C06",
		Level: "fault_enumeration",
		Rule: "two case classes. (cut) a multi-command transcript (LOGIN/AUTHENTICATE exchanges, literals, APPEND, FETCH, IDLE, ...) sent by a conforming raw peer, with the client->server stream cut at one byte offset by FIN, RST or a stall that lasts until the server's own timeout; quick samples offsets (1 in 5 right behind an IDLE line or a literal announcement), thorough enumerates every offset 0.." +
			fmt.Sprint(c06SweepMax) + " (mod length+1) of each of " + fmt.Sprint(c06Corpus) + " corpus transcripts for each kind. (garbage) byte- and token-level mutations of such transcripts, raw garbage, parenthesis nesting up to 300000, absurd literal announcements, written blindly. " +
			"Backend: counting stub Session or the real imapmemserver. Non-trivial: at least one byte was sent after the greeting. Distinct: distinct event-log hashes.",
		Components:   "real: imapserver.Server/Conn, internal/imapwire, imapmemserver in one class (woven); stub: counting Session in the other class, scripted/byzantine raw peer, network, clock, scheduler",
		Assumptions:  []string{"goroutine exit is judged two simulated hours after the peer is gone (longer than every server timeout)", "time and memory growth are not measured (simulated clock); unbounded recursion is caught as a stack-overflow crash under a 64 MiB stack cap"},
		QuickRuns:    6000,
		ThoroughRuns: c06Corpus*c06Kinds*(c06SweepMax+1) + 150000,
		Run:          runC06,
		Forced: func(tier string, idx int) []uint32 {
			total := c06Corpus * c06Kinds * (c06SweepMax + 1)
			if tier != "thorough" || idx >= total {
				return nil
			}
			return []uint32{0, uint32(idx % c06Corpus), uint32((idx / c06Corpus) % c06Kinds), uint32(idx / (c06Corpus * c06Kinds))}
		},
	})
}

// flatten renders a transcript as the byte stream a client would send if every synchronising
// literal were accepted.
func flatten(cmds []rawCmd) []byte {
	var b []byte
	for _, c := range cmds {
		b = append(b, c.Tag...)
		b = append(b, ' ')
		for _, p := range c.Parts {
			if !p.IsLit {
				b = append(b, p.Text...)
				continue
			}
			n := uint64(len(p.Lit))
			if p.Announce > 0 {
				n = p.Announce
			}
			if p.Sync {
				b = append(b, fmt.Sprintf("{%d}\r\n", n)...)
			} else {
				b = append(b, fmt.Sprintf("{%d+}\r\n", n)...)
			}
			b = append(b, p.Lit...)
		}
		b = append(b, "\r\n"...)
		for _, l := range c.Cont {
			b = append(b, l+"\r\n"...)
		}
	}
	return b
}

func mutate(t *simrt.Tape, b []byte) []byte {
	n := 1 + t.Choose(4)
	for i := 0; i < n; i++ {
		pos := 0
		if len(b) > 0 {
			pos = t.Choose(len(b))
		}
		if t.Choose(2) == 0 {
			// at the start of a line (often the very first one, before any LOGIN): inserted commands are then
			// read as commands instead of landing in the middle of another one
			starts := []int{0}
			for j := 0; j+1 < len(b); j++ {
				if b[j] == '\r' && b[j+1] == '\n' {
					starts = append(starts, j+2)
				}
			}
			pos = starts[t.Choose(len(starts))]
			if t.Choose(3) == 0 {
				pos = 0
			}
		}
		switch t.Choose(12) {
		case 0: // flip a byte
			if pos < len(b) {
				b[pos] = byte(t.Choose(256))
			}
		case 1: // delete a range
			if pos < len(b) {
				end := pos + 1 + t.Choose(20)
				if end > len(b) {
					end = len(b)
				}
				b = append(b[:pos:pos], b[end:]...)
			}
		case 2: // duplicate a range
			end := pos + 1 + t.Choose(40)
			if end > len(b) {
				end = len(b)
			}
			dup := append([]byte{}, b[pos:end]...)
			b = append(b[:end:end], append(dup, b[end:]...)...)
		case 3: // deep nesting
			depth := []int{10, 999, 1000, 1001, 5000, 300000}[t.Choose(6)]
			ins := "z9 " + []string{"FETCH 1 ", "SEARCH ", "STORE 1 FLAGS ", "LIST ", "APPEND INBOX ", "STATUS INBOX "}[t.Choose(6)] + strings.Repeat("(", depth) + "\r\n"
			b = append(b[:pos:pos], append([]byte(ins), b[pos:]...)...)
		case 4: // absurd literal announcements
			ins := []string{"{99999999999999}\r\n", "{4294967296+}\r\n", "{-1}\r\n", "{18446744073709551616}\r\n", "~{5}\r\n", "{0}\r\n", "{4097+}\r\n", "{9223372036854775807}\r\n"}[t.Choose(8)]
			b = append(b[:pos:pos], append([]byte(ins), b[pos:]...)...)
		case 5: // random garbage
			g := make([]byte, 1+t.Choose(60))
			for j := range g {
				g[j] = byte(t.Choose(256))
			}
			b = append(b[:pos:pos], append(g, b[pos:]...)...)
		case 6: // numbers at boundaries
			ins := []string{" 0", " 4294967295", " 4294967296", " 1:*", " *:*", " 0:0", " 99999999999999999999", " 1,", " $"}[t.Choose(9)]
			b = append(b[:pos:pos], append([]byte(ins), b[pos:]...)...)
		case 7: // truncate
			b = b[:pos]
		case 8: // unterminated quoted string / stray specials
			ins := []string{"\"", "\\", "(", ")", "[", "]", "{", "}", "\x00", "\r", "\n", "%", "*"}[t.Choose(13)]
			b = append(b[:pos:pos], append([]byte(ins), b[pos:]...)...)
		case 9: // long line
			ins := strings.Repeat("A", []int{100, 4096, 70000}[t.Choose(3)])
			b = append(b[:pos:pos], append([]byte(ins), b[pos:]...)...)
		case 10: // commands with odd arguments
			ins := []string{"q1 FETCH 1 BODY[]<1.9223372036854775807>\r\n", "q2 FETCH 1 (BODY.PEEK[1.2.3.HEADER.FIELDS.NOT (X)]<0.0>)\r\n", "q3 SEARCH OR OR OR OR ALL\r\n", "q4 UID FETCH 4294967295:* FLAGS\r\n", "q5 STORE 1:4294967295 +FLAGS.SILENT (\\Seen \\*)\r\n", "q6 SEARCH SMALLER 5 LARGER 1 NOT NOT NOT ALL\r\n", "q7 LIST (SUBSCRIBED) \"\" (\"%\" \"*\") RETURN (STATUS (MESSAGES))\r\n", "q8 APPEND INBOX (\\Seen) \"01-Jan-2020 00:00:00 +0000\" {3+}\r\nabc\r\n", "q9 ENABLE\r\n", "q10 FETCH 1 BINARY.SIZE[1]\r\n"}[t.Choose(10)]
			b = append(b[:pos:pos], append([]byte(ins), b[pos:]...)...)
		default: // IDLE / AUTHENTICATE continuation abuse
			ins := []string{"w1 IDLE\r\nw2 NOOP\r\n", "w3 AUTHENTICATE PLAIN\r\n!!!!\r\n", "w4 AUTHENTICATE PLAIN =\r\n", "w5 IDLE\r\nDONE\r\nDONE\r\n", "w6 AUTHENTICATE LOGIN\r\n*\r\n", "w7 STARTTLS\r\n",
				// continuation lines longer than the server's read buffer
				"w8 AUTHENTICATE PLAIN\r\n" + strings.Repeat("QUFB", 1300) + "\r\nw8b NOOP\r\n", "w9 AUTHENTICATE LOGIN\r\ndXNlcg==\r\n" + strings.Repeat("QUFB", 1100) + "\r\n", "w10 IDLE\r\n" + strings.Repeat("D", 5000) + "\r\nDONE\r\n"}[t.Choose(9)]
			b = append(b[:pos:pos], append([]byte(ins), b[pos:]...)...)
		}
	}
	return b
}

func runC06(r *R) {
	t := r.P
	// fixed-position draws (forced by the sweep)
	mode := t.Choose(4) // 0 cut of a corpus transcript, 1 garbage, 2 cut with real memserver backend, 3 cut of a freshly generated transcript
	scen := t.Choose(c06Corpus)
	kind := 1 + t.Choose(c06Kinds)
	ksel := t.Choose(1 << 16)

	var st *simrt.Tape
	if mode == 0 {
		st = simrt.NewTape(uint64(scen) + 5000) // corpus transcript: a function of its number only
	} else {
		st = t
	}
	capsVariant := st.Choose(4)
	g := &c04gen{t: st}
	if st.Choose(5) != 0 {
		g.cmds = append(g.cmds, rawCmd{Tag: g.tag(), Name: "LOGIN", Parts: cat(`LOGIN "user" "pass"`)})
		if st.Choose(3) != 0 {
			g.cmds = append(g.cmds, rawCmd{Tag: g.tag(), Name: "SELECT", Parts: cat(`SELECT INBOX`)})
		}
	}
	n := 1 + st.Choose(8)
	for i := 0; i < n; i++ {
		g.one()
	}
	if st.Choose(6) == 0 {
		// last command: an APPEND announcing more than the 100 MiB limit as a NON-synchronising literal (no payload
		// follows): whatever the capabilities, the backend must not be asked to store it
		g.cmds = append(g.cmds, rawCmd{Tag: g.tag(), Name: "APPEND", Parts: cat("APPEND INBOX ", rawPart{IsLit: true, Announce: g.hugeSize()})})
	}
	var blob []byte
	if mode == 1 {
		if t.Choose(6) == 0 {
			blob = make([]byte, 1+t.Choose(300))
			for i := range blob {
				blob[i] = byte(t.Choose(256))
			}
		} else {
			blob = mutate(t, flatten(g.cmds))
		}
	}
	cfg := r.SchedConfig()
	cfg.MaxSteps = 600000
	netMode := t.Choose(3)
	if len(blob) > 20000 {
		netMode = 0 // byte-at-a-time delivery of a huge blob would only burn scheduler steps
	}
	useMem := mode == 2

	// dry run (cut classes): transcript length as sent by the conforming peer
	var total int64
	var dryStream []byte
	if mode != 1 {
		dry := c06Exec(r, g.cmds, nil, capsVariant, useMem, 0, 0, 0, simrt.ReplayTape(nil), simrt.Config{MaxSteps: 300000})
		if r.Res.Infra != "" {
			return
		}
		nv := len(r.viol)
		c06Judge(r, dry, "dry")
		if len(r.viol) > nv {
			return
		}
		total = dry.sent
		dryStream = dry.cliStream
		r.trace = r.trace[:0]
	}
	off := int64(0)
	if mode != 1 {
		off = int64(ksel) % (total + 1)
		// 1 sampled cut in 5 lands where in-flight state is richest: right behind an IDLE line (the peer is idling) or
		// right behind a literal announcement (the server has invited or is about to invite the payload)
		if ksel > c06SweepMax && ksel%5 == 0 && dryStream != nil { // (the thorough sweep forces ksel <= c06SweepMax: it keeps enumerating every offset)
			var marks []int64
			for _, pat := range []string{" IDLE\r\n", "}\r\n"} {
				for i := 0; ; {
					j := bytes.Index(dryStream[i:], []byte(pat))
					if j < 0 {
						break
					}
					marks = append(marks, int64(i+j+len(pat)))
					i += j + len(pat)
				}
			}
			if len(marks) > 0 {
				off = marks[(ksel/5)%len(marks)]
			}
		}
		r.Tracef("class=cut backend-mem=%v caps=%d transcript=%d bytes, cut=%s at client byte %d", useMem, capsVariant, total, simnet.CutNames[kind], off)
		for i := range g.cmds {
			r.Tracef("cmd %s", describeCmd(&g.cmds[i]))
		}
		r.Probe("cut_" + simnet.CutNames[kind])
	} else {
		kind = 0
		r.Tracef("class=garbage caps=%d blob=%d bytes: %q", capsVariant, len(blob), clipStr(string(blob), 1200))
		r.Probe("garbage")
	}
	out := c06Exec(r, g.cmds, blob, capsVariant, useMem, kind, off, netMode, r.S, cfg)
	if r.Res.Infra != "" {
		return
	}
	r.Nontrivial = out.sent > 0
	c06Judge(r, out, "run")
}

type c06Out struct {
	b             *stubBackend
	log           *logBuf
	sent          int64
	leftovers     []simrt.WorkerInfo
	srvOut        []byte
	healthyOK     bool
	useMem        bool
	healthy       *rawPeer
	fromGenerator bool
	peer          *rawPeer
	cliStream     []byte // everything the peer wrote (dry run: the full transcript as sent)
}

func c06Exec(r *R, cmds []rawCmd, blob []byte, capsVariant int, useMem bool, kind int, off int64, netMode int, sched *simrt.Tape, cfg simrt.Config) *c06Out {
	out := &c06Out{useMem: useMem, fromGenerator: blob == nil}
	root := func() {
		var ln *simnet.Listener
		var srv *imapserver.Server
		caps := serverCaps(capsVariant)
		if useMem {
			delete(caps, imap.CapUnauthenticate)
			env := newMemEnv(r, memOpts{caps: caps, mailboxes: map[string]int{"INBOX": 3, "Archive": 1, "box1": 0}, insecureAuth: true})
			ln, srv, out.log = env.ln, env.srv, env.log
			out.b = newStubBackend()
		} else {
			b := newStubBackend()
			b.fetchLit = 300
			env := newStubEnv(r, b, &imapserver.Options{Caps: caps, InsecureAuth: true})
			ln, srv, out.log, out.b = env.ln, env.srv, env.log, b
		}
		cc, sc := r.Net.Pair("peer", "srv-peer")
		ln.Push(sc)
		switch netMode {
		case 1:
			cc.SetSegMode(2)
		case 2:
			sc.SetShortReads(true)
			sc.SetSendBuffer(48)
		}
		if kind != 0 {
			cc.CutOutgoing(kind, off)
		}
		var healthy *rawPeer
		if useMem {
			hc, hs := r.Net.Pair("healthy", "srv-healthy")
			ln.Push(hs)
			healthy = newRawPeer(r, "healthy", hc)
			out.healthy = healthy
		}
		peer := newRawPeer(r, "peer", cc)
		out.peer = peer
		done := make(chan struct{})
		healthyDone := make(chan struct{})
		stopHealthy := false
		nh := 0
		if healthy != nil {
			simrt.GoTask("healthy", func() {
				defer close(healthyDone)
				if !healthy.waitGreeting() {
					return
				}
				healthy.run([]rawCmd{textCmd("h1", `LOGIN "user" "pass"`), textCmd("h2", "SELECT INBOX")})
				// keep the session alive (the server closes idle connections after 35 minutes)
				for !stopHealthy && !healthy.eof {
					nh++
					healthy.run([]rawCmd{textCmd(fmt.Sprintf("k%d", nh), "NOOP")})
					simrt.Sleep(20 * time.Minute)
				}
			})
		} else {
			close(healthyDone)
		}
		simrt.GoTask("peer", func() {
			defer close(done)
			defer cc.Close()
			if !peer.waitGreeting() {
				return
			}
			if blob != nil {
				// byzantine peer: writes blindly, answers every continuation request with more bytes
				for o := 0; o < len(blob); {
					e := o + 700
					if e > len(blob) {
						e = len(blob)
					}
					if peer.write(blob[o:e]) != nil {
						break
					}
					o = e
				}
				peer.timeout = 40 * time.Minute
				peer.drain()
				return
			}
			peer.timeout = 40 * time.Minute
			peer.run(cmds)
			peer.timeout = 2 * time.Second
			peer.drain()
		})
		waitOrTimeout(done, 48*time.Hour)
		out.sent = cc.OutWritten()
		out.cliStream = append([]byte{}, cc.Written()...)
		stopHealthy = true
		waitOrTimeout(healthyDone, 2*time.Hour)
		if healthy != nil {
			// the healthy session must still work after the faulty connection ended
			healthy.timeout = 10 * time.Minute
			n0 := len(healthy.outcomes)
			healthy.run([]rawCmd{textCmd("h3", "NOOP"), textCmd("h4", "UID FETCH 1:* (UID)"), textCmd("h5", "LOGOUT")})
			out.healthyOK = healthy.outcomes[n0].Reply != nil && healthy.outcomes[n0].Reply.Name == "OK" // (the mailbox itself may have been renamed or deleted by the other peer)
			healthy.conn.Close()
		}
		// every peer is gone; let every server timeout expire
		simrt.Sleep(2 * time.Hour)
		for _, w := range simrt.Snapshot() {
			if w.Task || w.Name == "server.Serve" {
				continue
			}
			out.leftovers = append(out.leftovers, w)
		}
		out.srvOut = append([]byte{}, cc.Received()...)
		srv.Close()
	}
	saved := r.S
	r.S = sched
	r.Sim(cfg, root)
	r.S = saved
	return out
}

func c06Judge(r *R, out *c06Out, phase string) {
	res := r.Res
	if res.StepLimit {
		r.Violate("spin", phase, "the run did not quiesce within %d scheduler steps (a goroutine keeps running without making progress?)", res.Steps)
		return
	}
	for _, p := range out.log.panics() {
		r.Violate("server-panic", panicLogClass(p), "%s: %s", phase, clipStr(p, 2500))
	}
	for _, p := range res.Panics {
		r.Violate("panic", panicClass(p), "%s", p)
	}
	// connection goroutines must be gone two hours after the peer left (before Server.Close)
	if len(out.leftovers) > 0 {
		var names []string
		var d strings.Builder
		for _, w := range out.leftovers {
			f := normFunc(repoFrame(w.Funcs))
			if f == "" {
				f = w.Name
			}
			names = append(names, f)
			fmt.Fprintf(&d, "  worker %d %q %s: %s\n", w.ID, w.Name, w.State, strings.Join(firstN(w.Funcs, 8), " < "))
		}
		sortStrings(names)
		r.Violate("conn-goroutine-leak", strings.Join(uniq(names), ","), "%s: goroutines of the connection still alive 2 simulated hours after the peer was gone:\n%s", phase, d.String())
	}
	// hangs of harness tasks (a peer blocked forever means the server neither answered nor closed)
	var hung []string
	for _, w := range res.Alive {
		if w.Task {
			hung = append(hung, w.Name)
		}
	}
	if len(hung) > 0 {
		r.Violate("hang", strings.Join(uniq(hung), ","), "%s: harness tasks blocked at quiescence:\n%s", phase, describeAlive(res))
	}
	if out.peer != nil {
		judgeInvites(r, out.peer.outcomes, phase)
	}
	if !out.useMem {
		judgeIdleLeaks(r, out.b, phase)
		for id := 1; id <= out.b.created; id++ {
			if n := out.b.closed[id]; n != 1 {
				r.Violate("session-close-count", fmt.Sprintf("closed %d times", n), "%s: backend session #%d was created but Close was called %d times (want exactly once) by the time the connection's goroutines were judged", phase, id, n)
			}
		}
		for _, c := range out.b.calls {
			if c.Method == "Append" {
				if sz, _ := strconv.ParseInt(c.Args[1], 10, 64); sz > 100*1024*1024 || sz < 0 {
					r.Violate("append-over-limit", "backend reached", "%s: the backend's Append was invoked for a %d-byte literal (limit 100 MiB); it read %d payload bytes", phase, sz, c.Bytes)
				}
				continue
			}
			for _, a := range c.Args {
				// only in the cut classes, whose generator keeps atoms and quoted strings short, is a
				// long argument known to have arrived as a literal
				if len(a) > 4096 && out.fromGenerator {
					r.Violate("oversized-buffered-literal", c.Method, "%s: backend call %s received a %d-byte string argument: a literal larger than 4096 bytes was buffered in memory", phase, c.Method, len(a))
				}
			}
		}
	} else if out.healthy != nil && !out.healthyOK && phase == "run" {
		r.Violate("bystander-broken", "healthy session", "%s: a healthy session on the same mailbox no longer works after the faulty connection ended: %v", phase, describeOutcomes(out.healthy))
	}
	if len(r.viol) > 0 {
		r.Tracef("server output: %q", clipStr(string(out.srvOut), 2000))
		for _, l := range out.log.all() {
			r.Tracef("server log: %s", clipStr(l, 300))
		}
	}
}

func describeOutcomes(p *rawPeer) []string {
	var s []string
	for _, o := range p.outcomes {
		s = append(s, o.Cmd.Tag+":"+o.describe())
	}
	return s
}

func firstN(s []string, n int) []string {
	if len(s) > n {
		return s[:n]
	}
	return s
}
