package harness

import (
	"bytes"
	"encoding/json"
	"fmt"
	"io"
	"sort"
	"strings"
	"time"

	"github.com/emersion/go-imap/v2"
	"github.com/emersion/go-imap/v2/imapclient"
	"github.com/emersion/go-imap/v2/imapserver"
	"github.com/emersion/go-sasl"
	"verif.local/simrt"
	"verif.local/simrt/simnet"
)

// C03 — server responses are decoded by the client into the data the backend supplied.

func init() {
	register(&Prop{
		ID:    "C03",
		Level: "exploration",
		Rule: "case = (server capability set, IMAP4rev2 enabled or not, sequence of <=12 client calls whose results an emitting stub Session writes through the server's writer API from generated data: SELECT data, STATUS items, LIST entries (in 1 run of 3 with generated mailbox names: controls, DEL, '&', non-ASCII, INBOX in every case, long names) with attributes/extended items/STATUS pairs, FETCH messages with UID, FLAGS, INTERNALDATE, RFC822.SIZE, ENVELOPE (all address lists, NIL variants), BODY/BODYSTRUCTURE trees (single, multipart, message/rfc822, nesting <=4, with and without extension data), BODY[section] and BINARY[section] literals of 0..8k arbitrary bytes, BINARY.SIZE; SEARCH and ESEARCH results; APPENDUID; COPYUID for COPY and MOVE with expunges; NAMESPACE; EXPUNGE numbers), client consumption mode (Collect, manual Next with chunked literal reads), network segmentation and schedule. " +
			"Oracle: what Wait/Collect/Next deliver equals what the stub wrote, up to the normalisations of DESIGN.md Appendix E. Non-trivial: at least one result was compared. Distinct: distinct event-log hashes.",
		Components:   "real: imapserver.Conn and its writers, imapclient.Client and its parsers, internal/imapwire (woven); stub: emitting Session, network, clock, scheduler",
		Assumptions:  []string{"generated data stay inside the domain the wire syntax can carry (seconds-precision times, addresses with non-empty mailbox and host, msg-ids without angle brackets, no RFC 2047 look-alikes in raw ASCII text, static non-empty number sets)"},
		QuickRuns:    5000,
		ThoroughRuns: 150000,
		Run:          runC03,
	})
}

// --- generators ---------------------------------------------------------------------------------

func genText(t *simrt.Tape) string {
	pieces := []string{"a", "Bc", " ", "é", "日本", "😀", "\"", "\\", "(", ")", "{", "}", "%", "*", "x y", "-", "_", ".", "@", "<", ">", "[", "]", "~"}
	n := 1 + t.Choose(5)
	var sb strings.Builder
	for i := 0; i < n; i++ {
		sb.WriteString(pieces[t.Choose(len(pieces))])
	}
	return sb.String()
}

func genTok(t *simrt.Tape) string {
	return []string{"plain", "TEXT", "x-Custom", "html", "Mixed", "rfc822", "octet-stream", "alternative"}[t.Choose(8)]
}

func genAddrs(t *simrt.Tape) []imap.Address {
	if t.Choose(4) == 0 {
		return nil
	}
	var l []imap.Address
	for i, n := 0, 1+t.Choose(3); i < n; i++ {
		a := imap.Address{Mailbox: []string{"alice", "bob.x", "c+tag", "Ünï"}[t.Choose(4)], Host: []string{"example.org", "mail.example.com", "x.y"}[t.Choose(3)]}
		if t.Choose(2) == 0 {
			a.Name = genText(t)
		}
		l = append(l, a)
	}
	return l
}

func genEnvelope(t *simrt.Tape) *imap.Envelope {
	e := &imap.Envelope{From: genAddrs(t), Sender: genAddrs(t), ReplyTo: genAddrs(t), To: genAddrs(t), Cc: genAddrs(t), Bcc: genAddrs(t)}
	if t.Choose(4) != 0 {
		e.Date = time.Date(1995+t.Choose(40), time.Month(1+t.Choose(12)), 1+t.Choose(28), t.Choose(24), t.Choose(60), t.Choose(60), 0, time.FixedZone("", []int{0, 3600, -5 * 3600, 19800}[t.Choose(4)]))
	}
	if t.Choose(4) != 0 {
		e.Subject = genText(t)
	}
	for i, n := 0, t.Choose(3); i < n; i++ {
		e.InReplyTo = append(e.InReplyTo, fmt.Sprintf("r%d@example.org", i))
	}
	if t.Choose(3) != 0 {
		e.MessageID = "m" + fmt.Sprint(t.Choose(1000)) + "@example.org"
	}
	return e
}

func genParams(t *simrt.Tape) map[string]string {
	if t.Choose(3) == 0 {
		return nil
	}
	m := map[string]string{}
	for i, n := 0, 1+t.Choose(3); i < n; i++ {
		m[[]string{"charset", "name", "boundary", "format"}[t.Choose(4)]] = genText(t)
	}
	return m
}

func genDisp(t *simrt.Tape) *imap.BodyStructureDisposition {
	if t.Choose(2) == 0 {
		return nil
	}
	return &imap.BodyStructureDisposition{Value: []string{"attachment", "inline"}[t.Choose(2)], Params: genParams(t)}
}

func genLang(t *simrt.Tape) []string {
	if t.Choose(2) == 0 {
		return nil
	}
	return []string{"en", "fr-CA", "de"}[:1+t.Choose(3)]
}

func genBody(t *simrt.Tape, depth int, ext bool) imap.BodyStructure {
	if depth > 0 && t.Choose(3) == 0 {
		mp := &imap.BodyStructureMultiPart{Subtype: genTok(t)}
		for i, n := 0, 1+t.Choose(3); i < n; i++ {
			mp.Children = append(mp.Children, genBody(t, depth-1, ext))
		}
		if ext {
			mp.Extended = &imap.BodyStructureMultiPartExt{Params: genParams(t), Disposition: genDisp(t), Language: genLang(t)}
			if t.Choose(3) == 0 {
				mp.Extended.Location = "http://example.org/" + genTok(t)
			}
		}
		return mp
	}
	sp := &imap.BodyStructureSinglePart{Type: []string{"text", "application", "image", "TEXT"}[t.Choose(4)], Subtype: genTok(t), Params: genParams(t), Encoding: []string{"", "7bit", "BASE64", "quoted-printable", "8BIT"}[t.Choose(5)], Size: uint32(t.Choose(100000))}
	if t.Choose(3) == 0 {
		sp.ID = "<id" + fmt.Sprint(t.Choose(99)) + "@x>"
	}
	if t.Choose(3) == 0 {
		sp.Description = genText(t)
	}
	if strings.EqualFold(sp.Type, "text") {
		sp.Text = &imap.BodyStructureText{NumLines: int64(t.Choose(5000))}
	} else if depth > 0 && t.Choose(4) == 0 {
		sp.Type, sp.Subtype = "message", "rfc822"
		sp.MessageRFC822 = &imap.BodyStructureMessageRFC822{Envelope: genEnvelope(t), BodyStructure: genBody(t, depth-1, ext), NumLines: int64(t.Choose(900))}
	}
	if ext {
		sp.Extended = &imap.BodyStructureSinglePartExt{Disposition: genDisp(t), Language: genLang(t)}
		if t.Choose(3) == 0 {
			sp.Extended.Location = "loc-" + genTok(t)
		}
	}
	return sp
}

func genFlagList(t *simrt.Tape) []imap.Flag {
	var f []imap.Flag
	for i, n := 0, t.Choose(4); i < n; i++ {
		f = append(f, []imap.Flag{imap.FlagSeen, imap.FlagAnswered, imap.FlagDeleted, imap.FlagFlagged, imap.FlagDraft, "$Forwarded", "custom", "Key_2"}[t.Choose(8)])
	}
	return f
}

func genLiteralBytes(t *simrt.Tape) []byte {
	n := []int{0, 1, 13, 200, 4095, 4096, 4097, 8000}[t.Choose(8)]
	b := make([]byte, n)
	mode := t.Choose(3)
	for i := range b {
		switch mode {
		case 0:
			b[i] = "line\r\n)(\" {5}\r\n"[i%15]
		case 1:
			b[i] = byte(i*7 + 13)
		default:
			b[i] = 'x'
		}
	}
	return b
}

type c03msg struct {
	SeqNum   uint32
	UID      imap.UID
	Flags    []imap.Flag
	Date     time.Time
	Size     int64
	Envelope *imap.Envelope
	Body     imap.BodyStructure
	Sections [][]byte // one per requested BODY[] section
	Binary   [][]byte
	BinSizes []uint32
}

type c03op struct {
	Kind     string
	Fetch    *imap.FetchOptions
	UseUID   bool
	Msgs     []c03msg
	Mode     int
	Select   *imap.SelectData
	Status   *imap.StatusData
	StOpts   *imap.StatusOptions
	List     []*imap.ListData
	LOpts    *imap.ListOptions
	Search   *imap.SearchData
	SOpts    *imap.SearchOptions
	Append   *imap.AppendData
	Copy     *imap.CopyData
	Expunged []uint32
	NS       *imap.NamespaceData
}

func genStatusData(t *simrt.Tape, o *imap.StatusOptions, mailbox string) *imap.StatusData {
	u := func() *uint32 { v := uint32(t.Choose(100000)); return &v }
	d := &imap.StatusData{Mailbox: mailbox}
	if o.NumMessages {
		d.NumMessages = u()
	}
	if o.UIDNext {
		d.UIDNext = imap.UID(1 + t.Choose(4000000))
	}
	if o.UIDValidity {
		d.UIDValidity = uint32(1 + t.Choose(4000000))
	}
	if o.NumUnseen {
		d.NumUnseen = u()
	}
	if o.NumDeleted {
		d.NumDeleted = u()
	}
	if o.Size {
		v := int64(t.Choose(1 << 30))
		d.Size = &v
	}
	if o.AppendLimit && t.Choose(2) == 0 { // otherwise no limit: sent as "APPENDLIMIT NIL"
		d.AppendLimit = u()
	}
	if o.DeletedStorage {
		v := int64(t.Choose(1 << 30))
		d.DeletedStorage = &v
	}
	return d
}

func genC03Op(t *simrt.Tape, selected bool) c03op {
	kinds := []string{"Status", "List", "List", "Append", "Namespace", "Select"}
	if selected {
		kinds = append(kinds, "Fetch", "Fetch", "Fetch", "Fetch", "Search", "Search", "Copy", "Move", "Expunge", "Store")
	}
	o := c03op{Kind: kinds[t.Choose(len(kinds))], Mode: t.Choose(3)}
	mb := []string{"INBOX", "Archive/2024", "Entwürfe", "a&b", "sp ace", "quo\"te"}
	if t.Choose(3) == 2 {
		// names the backend may hold: controls, DEL, '&', non-ASCII, every case of INBOX, long names
		for i := range mb {
			mb[i] = genMailboxName(t)
		}
	}
	switch o.Kind {
	case "Select":
		o.Select = &imap.SelectData{Flags: genFlagList(t), PermanentFlags: append(genFlagList(t), imap.FlagWildcard)[t.Choose(2):], NumMessages: uint32(t.Choose(5000)), UIDNext: imap.UID(1 + t.Choose(100000)), UIDValidity: uint32(1 + t.Choose(100000))}
	case "Status":
		o.StOpts = genStatusOptions(t)
		o.Status = genStatusData(t, o.StOpts, mb[t.Choose(len(mb))])
	case "List":
		if t.Choose(2) == 0 {
			o.LOpts = &imap.ListOptions{ReturnSubscribed: true, ReturnChildren: t.Choose(2) == 0}
			if t.Choose(2) == 0 {
				o.LOpts.ReturnStatus = genStatusOptions(t)
			}
		}
		many := t.Choose(12) == 0 // a long listing of plain mailboxes: > 1000 empty attribute lists on one connection
		for i, n := 0, t.Choose(5); i < n || (many && i < 1100); i++ {
			d := &imap.ListData{Mailbox: mb[t.Choose(len(mb))] + fmt.Sprint(i), Delim: []rune{'/', '.', 0}[t.Choose(3)]}
			if many {
				o.List = append(o.List, d)
				continue
			}
			for j, k := 0, t.Choose(3); j < k; j++ {
				d.Attrs = append(d.Attrs, []imap.MailboxAttr{imap.MailboxAttrNoSelect, imap.MailboxAttrHasChildren, imap.MailboxAttrSubscribed, imap.MailboxAttrTrash, imap.MailboxAttrNoInferiors, "\\X-Custom"}[t.Choose(6)])
			}
			if t.Choose(4) == 0 {
				d.ChildInfo = &imap.ListDataChildInfo{Subscribed: t.Choose(2) == 0}
			}
			if t.Choose(5) == 0 {
				d.OldName = "old" + mb[t.Choose(len(mb))]
			}
			if o.LOpts != nil && o.LOpts.ReturnStatus != nil && t.Choose(4) != 0 {
				d.Status = genStatusData(t, o.LOpts.ReturnStatus, d.Mailbox)
			}
			o.List = append(o.List, d)
		}
	case "Append":
		if t.Choose(4) != 0 {
			o.Append = &imap.AppendData{UID: imap.UID(1 + t.Choose(99999)), UIDValidity: uint32(1 + t.Choose(99999))}
		}
	case "Namespace":
		ns := func() []imap.NamespaceDescriptor {
			var l []imap.NamespaceDescriptor
			for i, n := 0, t.Choose(3); i < n; i++ {
				l = append(l, imap.NamespaceDescriptor{Prefix: []string{"", "INBOX.", "Other Users/", "#shared/", "R&D/", "Dossiers partagés/", "共有.", "a&-b/", "q\"uote\\/"}[t.Choose(9)], Delim: []rune{'/', '.'}[t.Choose(2)]})
			}
			return l
		}
		o.NS = &imap.NamespaceData{Personal: ns(), Other: ns(), Shared: ns()}
	case "Fetch", "Store":
		o.UseUID = t.Choose(2) == 0
		f := &imap.FetchOptions{Flags: t.Choose(2) == 0, UID: t.Choose(2) == 0, InternalDate: t.Choose(3) == 0, RFC822Size: t.Choose(3) == 0, Envelope: t.Choose(3) == 0}
		switch t.Choose(4) {
		case 1:
			f.BodyStructure = &imap.FetchItemBodyStructure{}
		case 2:
			f.BodyStructure = &imap.FetchItemBodyStructure{Extended: true}
		}
		for i, n := 0, t.Choose(3); i < n; i++ {
			s := &imap.FetchItemBodySection{Peek: true}
			switch t.Choose(5) {
			case 1:
				s.Specifier = imap.PartSpecifierHeader
			case 2:
				s.Part = []int{1 + i, 2}
			case 3:
				s.Specifier, s.HeaderFields = imap.PartSpecifierHeader, []string{"Subject", "X-" + fmt.Sprint(i)}
			case 4:
				s.Partial = &imap.SectionPartial{Offset: int64(i), Size: 100}
			}
			s.Part = append(s.Part, 0)[:len(s.Part)] // distinct backing arrays
			if i == 1 && s.Specifier == imap.PartSpecifierNone && s.Part == nil && s.Partial == nil {
				s.Specifier = imap.PartSpecifierText // keep the requested sections pairwise distinct
			}
			f.BodySection = append(f.BodySection, s)
		}
		if len(f.BodySection) == 2 && fmt.Sprint(*f.BodySection[0]) == fmt.Sprint(*f.BodySection[1]) {
			f.BodySection = f.BodySection[:1]
		}
		if t.Choose(4) == 0 {
			f.BinarySection = []*imap.FetchItemBinarySection{{Part: []int{1}, Peek: true}}
		}
		if t.Choose(4) == 0 {
			f.BinarySectionSize = []*imap.FetchItemBinarySectionSize{{Part: []int{2, 1}}}
		}
		if t.Choose(8) == 0 {
			// a response with more data items than the client's per-message item buffer (32), with the
			// literals, if any, coming after them
			f.BinarySectionSize = nil
			for j, k := 0, 30+t.Choose(40); j < k; j++ {
				f.BinarySectionSize = append(f.BinarySectionSize, &imap.FetchItemBinarySectionSize{Part: []int{1 + j/9, 1 + j%9}})
			}
			if t.Choose(2) == 0 {
				f.BodySection = nil
			}
		}
		if o.Kind == "Store" {
			f = &imap.FetchOptions{Flags: true}
		}
		if o.UseUID {
			f.UID = true
		}
		if !f.Flags && !f.UID && !f.InternalDate && !f.RFC822Size && !f.Envelope && f.BodyStructure == nil && len(f.BodySection)+len(f.BinarySection)+len(f.BinarySectionSize) == 0 {
			f.Flags = true
		}
		o.Fetch = f
		for i, n := 0, t.Choose(4); i < n; i++ {
			m := c03msg{SeqNum: uint32(1 + i*3 + t.Choose(3)), UID: imap.UID(10 + i*5 + t.Choose(5))}
			if f.Flags {
				m.Flags = genFlagList(t)
			}
			if f.InternalDate {
				m.Date = time.Date(2000+t.Choose(30), time.Month(1+t.Choose(12)), 1+t.Choose(28), t.Choose(24), t.Choose(60), t.Choose(60), 0, time.FixedZone("", []int{0, 7200, -9 * 3600}[t.Choose(3)]))
			}
			if f.RFC822Size {
				m.Size = int64(t.Choose(1 << 31))
			}
			if f.Envelope {
				m.Envelope = genEnvelope(t)
			}
			if f.BodyStructure != nil {
				m.Body = genBody(t, 3, f.BodyStructure.Extended)
			}
			for range f.BodySection {
				m.Sections = append(m.Sections, genLiteralBytes(t))
			}
			for range f.BinarySection {
				m.Binary = append(m.Binary, genLiteralBytes(t))
			}
			for range f.BinarySectionSize {
				m.BinSizes = append(m.BinSizes, uint32(t.Choose(1<<30)))
			}
			o.Msgs = append(o.Msgs, m)
		}
	case "Search":
		o.UseUID = t.Choose(2) == 0
		if t.Choose(2) == 0 {
			o.SOpts = &imap.SearchOptions{ReturnMin: t.Choose(2) == 0, ReturnMax: t.Choose(2) == 0, ReturnAll: t.Choose(2) == 0, ReturnCount: t.Choose(2) == 0}
		}
		d := &imap.SearchData{UID: o.UseUID}
		n := t.Choose(5)
		if o.UseUID {
			s := imap.UIDSet{}
			for i := 0; i < n; i++ {
				a := imap.UID(1 + t.Choose(3000))
				s.AddRange(a, a+imap.UID(t.Choose(3)))
			}
			d.All = s
			if u, ok := s.Nums(); ok && len(u) > 0 {
				d.Min, d.Max, d.Count = uint32(u[0]), uint32(u[len(u)-1]), uint32(len(u))
			}
		} else {
			s := imap.SeqSet{}
			for i := 0; i < n; i++ {
				a := uint32(1 + t.Choose(3000))
				s.AddRange(a, a+uint32(t.Choose(3)))
			}
			d.All = s
			if u, ok := s.Nums(); ok && len(u) > 0 {
				d.Min, d.Max, d.Count = u[0], u[len(u)-1], uint32(len(u))
			}
		}
		o.Search = d
	case "Copy", "Move":
		o.UseUID = t.Choose(2) == 0
		if t.Choose(4) != 0 {
			n := 1 + t.Choose(4)
			src, dst := imap.UIDSet{}, imap.UIDSet{}
			a, b := imap.UID(1+t.Choose(500)), imap.UID(1+t.Choose(500))
			src.AddRange(a, a+imap.UID(n-1))
			dst.AddRange(b, b+imap.UID(n-1))
			o.Copy = &imap.CopyData{UIDValidity: uint32(1 + t.Choose(9999)), SourceUIDs: src, DestUIDs: dst}
		}
		if o.Kind == "Move" {
			for i, n := 0, t.Choose(4); i < n; i++ {
				o.Expunged = append(o.Expunged, uint32(1+t.Choose(20)))
			}
		}
	case "Expunge":
		for i, n := 0, t.Choose(5); i < n; i++ {
			o.Expunged = append(o.Expunged, uint32(1+t.Choose(20)))
		}
	}
	return o
}

// --- emitting session ---------------------------------------------------------------------------

type emitSession struct {
	cur *c03op
	r   *R
}

func (s *emitSession) Close() error                     { return nil }
func (s *emitSession) Login(u, p string) error          { return nil }
func (s *emitSession) AuthenticateMechanisms() []string { return []string{"PLAIN"} }
func (s *emitSession) Authenticate(string) (sasl.Server, error) {
	return sasl.NewPlainServer(func(i, u, p string) error { return nil }), nil
}
func (s *emitSession) Select(mailbox string, options *imap.SelectOptions) (*imap.SelectData, error) {
	if s.cur != nil && s.cur.Select != nil {
		return s.cur.Select, nil
	}
	return &imap.SelectData{NumMessages: 30, UIDNext: 100, UIDValidity: 1}, nil
}
func (s *emitSession) Create(string, *imap.CreateOptions) error { return nil }
func (s *emitSession) Delete(string) error                      { return nil }
func (s *emitSession) Rename(string, string) error              { return nil }
func (s *emitSession) Subscribe(string) error                   { return nil }
func (s *emitSession) Unsubscribe(string) error                 { return nil }
func (s *emitSession) List(w *imapserver.ListWriter, ref string, patterns []string, options *imap.ListOptions) error {
	for _, d := range s.cur.List {
		if err := w.WriteList(d); err != nil {
			return err
		}
	}
	return nil
}
func (s *emitSession) Status(mailbox string, options *imap.StatusOptions) (*imap.StatusData, error) {
	return s.cur.Status, nil
}
func (s *emitSession) Append(mailbox string, r imap.LiteralReader, options *imap.AppendOptions) (*imap.AppendData, error) {
	io.Copy(io.Discard, r)
	return s.cur.Append, nil
}
func (s *emitSession) Poll(w *imapserver.UpdateWriter, allowExpunge bool) error { return nil }
func (s *emitSession) Idle(w *imapserver.UpdateWriter, stop <-chan struct{}) error {
	simrt.Recv(stop)
	return nil
}
func (s *emitSession) Unselect() error { return nil }
func (s *emitSession) Expunge(w *imapserver.ExpungeWriter, uids *imap.UIDSet) error {
	for _, n := range s.cur.Expunged {
		if err := w.WriteExpunge(n); err != nil {
			return err
		}
	}
	return nil
}
func (s *emitSession) Search(kind imapserver.NumKind, criteria *imap.SearchCriteria, options *imap.SearchOptions) (*imap.SearchData, error) {
	return s.cur.Search, nil
}
func (s *emitSession) Fetch(w *imapserver.FetchWriter, numSet imap.NumSet, options *imap.FetchOptions) error {
	return s.emitFetch(w)
}
func (s *emitSession) Store(w *imapserver.FetchWriter, numSet imap.NumSet, flags *imap.StoreFlags, options *imap.StoreOptions) error {
	return s.emitFetch(w)
}
func (s *emitSession) emitFetch(w *imapserver.FetchWriter) error {
	f := s.cur.Fetch
	for _, m := range s.cur.Msgs {
		rw := w.CreateMessage(m.SeqNum)
		if f.UID {
			rw.WriteUID(m.UID)
		}
		if f.Flags {
			rw.WriteFlags(m.Flags)
		}
		if f.InternalDate {
			rw.WriteInternalDate(m.Date)
		}
		if f.RFC822Size {
			rw.WriteRFC822Size(m.Size)
		}
		if f.Envelope {
			rw.WriteEnvelope(m.Envelope)
		}
		if f.BodyStructure != nil {
			rw.WriteBodyStructure(m.Body)
		}
		if len(f.BinarySectionSize) > 8 {
			for i, sec := range f.BinarySectionSize {
				rw.WriteBinarySectionSize(&imap.FetchItemBinarySection{Part: sec.Part}, m.BinSizes[i])
			}
		}
		for i, sec := range f.BodySection {
			wc := rw.WriteBodySection(sec, int64(len(m.Sections[i])))
			b := m.Sections[i]
			for len(b) > 0 { // chunked writes
				n := 1000
				if n > len(b) {
					n = len(b)
				}
				if _, err := wc.Write(b[:n]); err != nil {
					return err
				}
				b = b[n:]
			}
			if err := wc.Close(); err != nil {
				return err
			}
		}
		for i, sec := range f.BinarySection {
			wc := rw.WriteBinarySection(sec, int64(len(m.Binary[i])))
			wc.Write(m.Binary[i])
			wc.Close()
		}
		if len(f.BinarySectionSize) <= 8 {
			for i, sec := range f.BinarySectionSize {
				rw.WriteBinarySectionSize(&imap.FetchItemBinarySection{Part: sec.Part}, m.BinSizes[i])
			}
		}
		if err := rw.Close(); err != nil {
			return err
		}
	}
	return nil
}
func (s *emitSession) Copy(numSet imap.NumSet, dest string) (*imap.CopyData, error) {
	return s.cur.Copy, nil
}
func (s *emitSession) Move(w *imapserver.MoveWriter, numSet imap.NumSet, dest string) error {
	if err := w.WriteCopyData(s.cur.Copy); err != nil {
		return err
	}
	for _, n := range s.cur.Expunged {
		if err := w.WriteExpunge(n); err != nil {
			return err
		}
	}
	return nil
}
func (s *emitSession) Namespace() (*imap.NamespaceData, error) { return s.cur.NS, nil }

// --- normal forms of results --------------------------------------------------------------------

func nAddrs(l []imap.Address) []string {
	var out []string
	for _, a := range l {
		out = append(out, a.Name+"|"+a.Mailbox+"|"+a.Host)
	}
	return out
}

type nEnv struct {
	Date, Subject                      string
	From, Sender, ReplyTo, To, Cc, Bcc []string
	InReplyTo                          []string
	MessageID                          string
}

func normEnvelope(e *imap.Envelope, written bool) *nEnv {
	if e == nil {
		if written {
			e = &imap.Envelope{}
		} else {
			return nil
		}
	}
	n := &nEnv{Subject: e.Subject, From: nAddrs(e.From), Sender: nAddrs(e.Sender), ReplyTo: nAddrs(e.ReplyTo), To: nAddrs(e.To), Cc: nAddrs(e.Cc), Bcc: nAddrs(e.Bcc), InReplyTo: e.InReplyTo, MessageID: e.MessageID}
	if !e.Date.IsZero() {
		n.Date = e.Date.Format(time.RFC3339)
	}
	if written {
		// RFC 9051 7.5.2: sender and reply-to default to from
		if e.Sender == nil {
			n.Sender = n.From
		}
		if e.ReplyTo == nil {
			n.ReplyTo = n.From
		}
	}
	return n
}

func lowerKeys(m map[string]string) map[string]string {
	if len(m) == 0 {
		return nil
	}
	out := map[string]string{}
	for k, v := range m {
		out[strings.ToLower(k)] = v
	}
	return out
}

func normDisp(d *imap.BodyStructureDisposition) interface{} {
	if d == nil {
		return nil
	}
	return []interface{}{strings.ToLower(d.Value), lowerKeys(d.Params)}
}

func emptyNil(l []string) []string {
	if len(l) == 0 {
		return nil
	}
	return l
}

func normBody(bs imap.BodyStructure, ext bool, written bool) interface{} {
	switch b := bs.(type) {
	case *imap.BodyStructureSinglePart:
		enc := strings.ToUpper(b.Encoding)
		if enc == "" {
			enc = "7BIT"
		}
		m := map[string]interface{}{"type": strings.ToLower(b.Type), "subtype": strings.ToLower(b.Subtype), "params": lowerKeys(b.Params), "id": b.ID, "desc": b.Description, "enc": enc, "size": b.Size}
		if b.MessageRFC822 != nil {
			m["rfc822"] = []interface{}{normEnvelope(b.MessageRFC822.Envelope, written), normBody(b.MessageRFC822.BodyStructure, ext, written), b.MessageRFC822.NumLines}
		}
		if b.Text != nil {
			m["lines"] = b.Text.NumLines
		}
		if ext && b.Extended != nil {
			m["ext"] = []interface{}{normDisp(b.Extended.Disposition), emptyNil(b.Extended.Language), b.Extended.Location}
		}
		return m
	case *imap.BodyStructureMultiPart:
		m := map[string]interface{}{"multipart": strings.ToLower(b.Subtype)}
		var ch []interface{}
		for _, c := range b.Children {
			ch = append(ch, normBody(c, ext, written))
		}
		m["children"] = ch
		if ext && b.Extended != nil {
			m["ext"] = []interface{}{lowerKeys(b.Extended.Params), normDisp(b.Extended.Disposition), emptyNil(b.Extended.Language), b.Extended.Location}
		}
		return m
	}
	return nil
}

func sectionKey(s *imap.FetchItemBodySection) string {
	var hf []string
	for _, h := range s.HeaderFields {
		hf = append(hf, strings.ToLower(h))
	}
	p := ""
	if s.Partial != nil {
		p = fmt.Sprintf("<%d>", s.Partial.Offset)
	}
	return fmt.Sprintf("%v|%s|%v|%s", s.Part, s.Specifier, hf, p)
}

// --- run ----------------------------------------------------------------------------------------

func runC03(r *R) {
	t := r.P
	capsVariant := t.Choose(4)
	enable := t.Choose(2) == 1
	netMode := t.Choose(4)
	n := 1 + t.Choose(12)
	ops := []c03op{}
	selected := false
	for i := 0; i < n; i++ {
		if !selected && t.Choose(2) == 0 {
			o := genC03Op(t, false)
			o.Kind = "Select"
			o.Select = &imap.SelectData{Flags: genFlagList(t), PermanentFlags: genFlagList(t), NumMessages: uint32(t.Choose(5000)), UIDNext: imap.UID(1 + t.Choose(100000)), UIDValidity: uint32(1 + t.Choose(100000))}
			ops = append(ops, o)
			selected = true
			continue
		}
		o := genC03Op(t, selected)
		if o.Kind == "Select" {
			selected = true
		}
		ops = append(ops, o)
	}
	cfg := r.SchedConfig()
	// byte-at-a-time delivery of tens of kilobytes of literals only burns the step budget: the fragmentation
	// of large volumes is left to the seeded segmentation
	volume := 0
	for _, o := range ops {
		for _, m := range o.Msgs {
			for _, sec := range m.Sections {
				volume += len(sec)
			}
			for _, sec := range m.Binary {
				volume += len(sec)
			}
		}
	}
	for _, o := range ops {
		volume += 25 * len(o.List) // (a long listing is volume too)
	}
	if volume > 24000 && (netMode == 1 || netMode == 3) {
		netMode = 2
	}
	cfg.MaxSteps = 400000
	sess := &emitSession{r: r}
	var srvLog *logBuf
	var cliConn *simnet.Conn
	r.Sim(cfg, func() {
		caps := serverCaps(capsVariant)
		delete(caps, imap.CapUnauthenticate)
		srvLog = &logBuf{}
		srv := imapserver.New(&imapserver.Options{Caps: caps, InsecureAuth: true, Logger: srvLog, NewSession: func(*imapserver.Conn) (imapserver.Session, *imapserver.GreetingData, error) {
			return sess, nil, nil
		}})
		ln := r.Net.Listen()
		simrt.GoNamed("server.Serve", func() { srv.Serve(ln) })
		cc, sc := r.Net.Pair("cli", "srv")
		cliConn = cc
		ln.Push(sc)
		switch netMode {
		case 1:
			sc.SetSegMode(2)
		case 2:
			cc.SetShortReads(true)
		case 3:
			sc.SetSendBuffer(100)
			cc.SetShortReads(true)
		}
		c := imapclient.New(cc, nil)
		done := make(chan struct{})
		simrt.GoTask("caller", func() {
			defer close(done)
			if err := c.Login("u", "p").Wait(); err != nil {
				r.Violate("call-failed", "Login", "%v", err)
				return
			}
			if enable {
				c.Enable(imap.CapIMAP4rev2).Wait()
			}
			for i := range ops {
				o := &ops[i]
				sess.cur = o
				if !c03Do(r, c, o) {
					break
				}
			}
			c.Logout().Wait()
			c.Close()
		})
		waitOrTimeout(done, 24*time.Hour)
		c.Close()
		srv.Close()
	})
	if r.Res.Infra != "" {
		return
	}
	r.CheckLiveness(false)
	for _, p := range srvLog.panics() {
		r.Violate("server-panic", panicLogClass(p), "%s", clipStr(p, 2000))
	}
	if len(r.viol) > 0 {
		for _, l := range srvLog.all() {
			r.Tracef("server log: %s", clipStr(l, 300))
		}
		rec := cliConn.Received()
		if len(rec) > 2500 {
			rec = rec[len(rec)-2500:]
		}
		r.Tracef("client->server: %q", clipStr(string(cliConn.Written()), 1200))
		r.Tracef("server->client (tail): %q", string(rec))
	}
}

func c03mismatch(r *R, o *c03op, field string, want, got interface{}) {
	ja, _ := json.Marshal(want)
	jb, _ := json.Marshal(got)
	r.Violate("data-mismatch", o.Kind+"."+field, "%s: the backend supplied %s = %s but the client delivered %s", o.Kind, field, clipStr(string(ja), 900), clipStr(string(jb), 900))
}

func c03eq(r *R, o *c03op, field string, want, got interface{}) {
	if _, _, ok := jsonEq(want, got); !ok {
		c03mismatch(r, o, field, want, got)
	}
}

func flagStrs(f []imap.Flag) []string {
	out := normFlags(f)
	if len(out) == 0 {
		return nil
	}
	return out
}

func attrStrs(a []imap.MailboxAttr) []string {
	var out []string
	for _, x := range a {
		out = append(out, strings.ToLower(string(x)))
	}
	sort.Strings(out)
	return out
}

func statusNorm(d *imap.StatusData) interface{} {
	if d == nil {
		return nil
	}
	c := *d
	c.Mailbox = normMailbox(c.Mailbox) // INBOX is case-insensitive on the wire
	// "APPENDLIMIT NIL" (no limit) is delivered by the client as the largest uint32: same meaning
	if c.AppendLimit != nil && *c.AppendLimit == ^uint32(0) {
		c.AppendLimit = nil
	}
	return &c
}

// c03Do issues one call and compares its result; false stops the scenario (connection-level failure).
func c03Do(r *R, c *imapclient.Client, o *c03op) bool {
	fail := func(err error) bool {
		r.Violate("call-failed", o.Kind, "%s failed although the backend succeeded: %v", o.Kind, err)
		r.Tracef("%s -> %v", o.Kind, err)
		return isIMAPStatusErr(err)
	}
	r.Nontrivial = true
	switch o.Kind {
	case "Select":
		d, err := c.Select("INBOX", nil).Wait()
		if err != nil {
			return fail(err)
		}
		w := o.Select
		c03eq(r, o, "NumMessages", w.NumMessages, d.NumMessages)
		c03eq(r, o, "UIDNext", w.UIDNext, d.UIDNext)
		c03eq(r, o, "UIDValidity", w.UIDValidity, d.UIDValidity)
		c03eq(r, o, "Flags", flagStrs(w.Flags), flagStrs(d.Flags))
		c03eq(r, o, "PermanentFlags", flagStrs(w.PermanentFlags), flagStrs(d.PermanentFlags))
	case "Status":
		d, err := c.Status(o.Status.Mailbox, o.StOpts).Wait()
		if err != nil {
			return fail(err)
		}
		c03eq(r, o, "StatusData", statusNorm(o.Status), statusNorm(d))
	case "List":
		l, err := c.List("", "*", o.LOpts).Collect()
		if err != nil {
			return fail(err)
		}
		norm := func(l []*imap.ListData) interface{} {
			var out []interface{}
			for _, d := range l {
				delim := ""
				if d.Delim != 0 {
					delim = string(d.Delim)
				}
				out = append(out, []interface{}{normMailbox(d.Mailbox), delim, attrStrs(d.Attrs), d.ChildInfo, d.OldName, statusNorm(d.Status)})
			}
			return out
		}
		c03eq(r, o, "mailboxes", norm(o.List), norm(l))
	case "Append":
		cmd := c.Append("INBOX", 3, nil)
		cmd.Write([]byte("abc"))
		cmd.Close()
		d, err := cmd.Wait()
		if err != nil {
			return fail(err)
		}
		want := imap.AppendData{}
		if o.Append != nil {
			want = *o.Append
		}
		c03eq(r, o, "AppendData", want, *d)
	case "Namespace":
		d, err := c.Namespace().Wait()
		if err != nil {
			return fail(err)
		}
		norm := func(l []imap.NamespaceDescriptor) interface{} {
			var out []string
			for _, x := range l {
				out = append(out, x.Prefix+"|"+string(x.Delim))
			}
			return out
		}
		c03eq(r, o, "Personal", norm(o.NS.Personal), norm(d.Personal))
		c03eq(r, o, "Other", norm(o.NS.Other), norm(d.Other))
		c03eq(r, o, "Shared", norm(o.NS.Shared), norm(d.Shared))
	case "Search":
		var cmd *imapclient.SearchCommand
		if o.UseUID {
			cmd = c.UIDSearch(&imap.SearchCriteria{}, o.SOpts)
		} else {
			cmd = c.Search(&imap.SearchCriteria{}, o.SOpts)
		}
		d, err := cmd.Wait()
		if err != nil {
			return fail(err)
		}
		wantAll := o.SOpts == nil || o.SOpts.ReturnAll || (!o.SOpts.ReturnMin && !o.SOpts.ReturnMax && !o.SOpts.ReturnCount)
		if wantAll {
			got := ""
			if d.All != nil {
				got = d.All.String()
			}
			c03eq(r, o, "All", o.Search.All.String(), got)
		}
		if o.SOpts != nil && o.SOpts.ReturnMin && o.Search.Count > 0 {
			c03eq(r, o, "Min", o.Search.Min, d.Min)
		}
		if o.SOpts != nil && o.SOpts.ReturnMax && o.Search.Count > 0 {
			c03eq(r, o, "Max", o.Search.Max, d.Max)
		}
		if o.SOpts != nil && o.SOpts.ReturnCount {
			c03eq(r, o, "Count", o.Search.Count, d.Count)
		}
		// whether the numbers are UIDs, also when the result is empty (SearchData.UID is documented as set for
		// the ESEARCH form only, which the server uses whenever RETURN options were given)
		if o.SOpts != nil && (o.SOpts.ReturnMin || o.SOpts.ReturnMax || o.SOpts.ReturnAll || o.SOpts.ReturnCount) {
			c03eq(r, o, "UID", o.Search.UID, d.UID)
		}
	case "Copy":
		var ns imap.NumSet = imap.SeqSetNum(1)
		if o.UseUID {
			ns = imap.UIDSetNum(1)
		}
		d, err := c.Copy(ns, "Archive").Wait()
		if err != nil {
			return fail(err)
		}
		c03copy(r, o, d.UIDValidity, d.SourceUIDs, d.DestUIDs)
	case "Move":
		var ns imap.NumSet = imap.SeqSetNum(1)
		if o.UseUID {
			ns = imap.UIDSetNum(1)
		}
		if !c.Caps().Has(imap.CapMove) {
			return true // the COPY/STORE/EXPUNGE fallback is not what this case generates data for
		}
		d, err := c.Move(ns, "Archive").Wait()
		if err != nil {
			return fail(err)
		}
		var src, dst imap.UIDSet
		if d.SourceUIDs != nil {
			src, _ = d.SourceUIDs.(imap.UIDSet)
			dst, _ = d.DestUIDs.(imap.UIDSet)
		}
		c03copy(r, o, d.UIDValidity, src, dst)
	case "Expunge":
		l, err := c.Expunge().Collect()
		if err != nil {
			return fail(err)
		}
		c03eq(r, o, "seqNums", o.Expunged, l)
	case "Fetch", "Store":
		var ns imap.NumSet
		if o.UseUID {
			s := imap.UIDSet{}
			s.AddRange(1, 0)
			ns = s
		} else {
			s := imap.SeqSet{}
			s.AddRange(1, 0)
			ns = s
		}
		var cmd *imapclient.FetchCommand
		if o.Kind == "Fetch" {
			cmd = c.Fetch(ns, o.Fetch)
		} else {
			cmd = c.Store(ns, &imap.StoreFlags{Op: imap.StoreFlagsAdd, Flags: []imap.Flag{imap.FlagSeen}}, nil)
		}
		var got []*imapclient.FetchMessageBuffer
		var err error
		if o.Mode == 0 {
			got, err = cmd.Collect()
		} else {
			for {
				msg := cmd.Next()
				if msg == nil {
					break
				}
				buf := &imapclient.FetchMessageBuffer{SeqNum: msg.SeqNum}
				for {
					item := msg.Next()
					if item == nil {
						break
					}
					switch it := item.(type) {
					case imapclient.FetchItemDataBodySection:
						b := readChunked(it.Literal, 1+o.Mode*333)
						if buf.BodySection == nil {
							buf.BodySection = map[*imap.FetchItemBodySection][]byte{}
						}
						buf.BodySection[it.Section] = b
					case imapclient.FetchItemDataBinarySection:
						b := readChunked(it.Literal, 1+o.Mode*333)
						if buf.BinarySection == nil {
							buf.BinarySection = map[*imap.FetchItemBinarySection][]byte{}
						}
						buf.BinarySection[it.Section] = b
					case imapclient.FetchItemDataFlags:
						buf.Flags = it.Flags
					case imapclient.FetchItemDataEnvelope:
						buf.Envelope = it.Envelope
					case imapclient.FetchItemDataInternalDate:
						buf.InternalDate = it.Time
					case imapclient.FetchItemDataRFC822Size:
						buf.RFC822Size = it.Size
					case imapclient.FetchItemDataUID:
						buf.UID = it.UID
					case imapclient.FetchItemDataBodyStructure:
						buf.BodyStructure = it.BodyStructure
					case imapclient.FetchItemDataBinarySectionSize:
						buf.BinarySectionSize = append(buf.BinarySectionSize, it)
					}
				}
				got = append(got, buf)
			}
			err = cmd.Close()
		}
		if err != nil {
			return fail(err)
		}
		if len(got) != len(o.Msgs) {
			c03mismatch(r, o, "message count", len(o.Msgs), len(got))
			return true
		}
		f := o.Fetch
		for i, m := range o.Msgs {
			g := got[i]
			c03eq(r, o, "SeqNum", m.SeqNum, g.SeqNum)
			if f.UID {
				c03eq(r, o, "UID", m.UID, g.UID)
			}
			if f.Flags {
				c03eq(r, o, "Flags", flagStrs(m.Flags), flagStrs(g.Flags))
			}
			if f.InternalDate && (!g.InternalDate.Equal(m.Date) || g.InternalDate.Format("-0700") != m.Date.Format("-0700")) {
				c03mismatch(r, o, "InternalDate", m.Date.Format(time.RFC3339), g.InternalDate.Format(time.RFC3339))
			}
			if f.RFC822Size {
				c03eq(r, o, "RFC822Size", m.Size, g.RFC822Size)
			}
			if f.Envelope {
				c03eq(r, o, "Envelope", normEnvelope(m.Envelope, true), normEnvelope(g.Envelope, false))
			}
			if f.BodyStructure != nil {
				c03eq(r, o, "BodyStructure", normBody(m.Body, f.BodyStructure.Extended, true), normBody(g.BodyStructure, f.BodyStructure.Extended, false))
			}
			if len(g.BodySection) != len(f.BodySection) {
				c03mismatch(r, o, "number of body sections", len(f.BodySection), len(g.BodySection))
			}
			for j, sec := range f.BodySection {
				found := false
				for gs, gb := range g.BodySection {
					if sectionKey(gs) == sectionKey(sec) {
						found = true
						if !bytes.Equal(gb, m.Sections[j]) {
							c03mismatch(r, o, "BodySection["+sectionKey(sec)+"]", fmt.Sprintf("%d bytes %q", len(m.Sections[j]), clipStr(string(m.Sections[j]), 30)), fmt.Sprintf("%d bytes %q", len(gb), clipStr(string(gb), 30)))
						}
					}
				}
				if !found {
					c03mismatch(r, o, "BodySection["+sectionKey(sec)+"]", "present", "missing")
				}
			}
			for j, sec := range f.BinarySection {
				found := false
				for gs, gb := range g.BinarySection {
					if fmt.Sprint(gs.Part) == fmt.Sprint(sec.Part) {
						found = true
						if !bytes.Equal(gb, m.Binary[j]) {
							c03mismatch(r, o, "BinarySection", len(m.Binary[j]), len(gb))
						}
					}
				}
				if !found {
					c03mismatch(r, o, "BinarySection", "present", "missing")
				}
			}
			for j, sec := range f.BinarySectionSize {
				if j >= len(g.BinarySectionSize) || fmt.Sprint(g.BinarySectionSize[j].Part) != fmt.Sprint(sec.Part) || g.BinarySectionSize[j].Size != m.BinSizes[j] {
					c03mismatch(r, o, "BinarySectionSize", m.BinSizes[j], g.BinarySectionSize)
				}
			}
		}
	}
	return true
}

func c03copy(r *R, o *c03op, uv uint32, src, dst imap.UIDSet) {
	if o.Copy == nil {
		if uv != 0 || len(src) != 0 {
			c03mismatch(r, o, "CopyData", "none", fmt.Sprint(uv, src, dst))
		}
		return
	}
	c03eq(r, o, "UIDValidity", o.Copy.UIDValidity, uv)
	c03eq(r, o, "SourceUIDs", o.Copy.SourceUIDs.String(), src.String())
	c03eq(r, o, "DestUIDs", o.Copy.DestUIDs.String(), dst.String())
}

func readChunked(lit imap.LiteralReader, chunk int) []byte {
	if lit == nil {
		return nil
	}
	var out []byte
	buf := make([]byte, chunk)
	for {
		n, err := lit.Read(buf)
		out = append(out, buf[:n]...)
		if err != nil {
			return out
		}
	}
}
