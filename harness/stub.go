package harness

import (
	"fmt"
	"io"
	"strings"
	"time"

	"github.com/emersion/go-imap/v2"
	"github.com/emersion/go-imap/v2/imapserver"
	"github.com/emersion/go-sasl"
	"verif.local/simrt"
)

// stubCall is one backend invocation recorded by a stub session.
type stubCall struct {
	Step   int    // global scheduler step at which the call started
	Sess   int    // session ordinal
	Method string // Login, Select, Fetch, ...
	Args   []string
	Err    bool
	Bytes  int64 // APPEND: payload bytes read by the backend
}

func (c stubCall) String() string {
	return fmt.Sprintf("#%d %s(%s)", c.Sess, c.Method, clipStr(strings.Join(c.Args, ", "), 200))
}

// stubBackend is shared by the sessions of one run.
type stubBackend struct {
	calls    []stubCall
	created  int
	closed   map[int]int
	failEach func(method string) bool // seeded outcome: true = the backend returns a NO error
	idleHook func(sess int, w *imapserver.UpdateWriter, stop <-chan struct{})
	pollHook func(sess int, w *imapserver.UpdateWriter, allowExpunge bool) error
	newErr   error // NewSession fails with this error
	preAuth  bool
	fetchLit int  // size of the literal written by Fetch (0: none)
	noMove   bool // sessions do not implement SessionMove
	// failUnselect: Unselect takes part in the seeded failures too (only C05 sets it and knows how to judge it)
	failUnselect bool
	// idleLeaks: session operations invoked while Session.Idle was running without having been told to stop
	idleLeaks []string
}

// judgeIdleLeaks: Session.Idle belongs to the IDLE command; once that command has ended, however it ended, the
// backend has been told to stop before any other session operation (or Close) is invoked.
func judgeIdleLeaks(r *R, b *stubBackend, phase string) {
	if len(b.idleLeaks) > 0 {
		r.Violate("idle-outlives-command", "", "%s: %s (%d occurrence(s))", phase, b.idleLeaks[0], len(b.idleLeaks))
	}
}

func newStubBackend() *stubBackend { return &stubBackend{closed: map[int]int{}} }

func (b *stubBackend) NewSession(*imapserver.Conn) (imapserver.Session, *imapserver.GreetingData, error) {
	if b.newErr != nil {
		return nil, nil, b.newErr
	}
	b.created++
	s := &stubSession{b: b, id: b.created}
	var g *imapserver.GreetingData
	if b.preAuth {
		g = &imapserver.GreetingData{PreAuth: true}
	}
	return s, g, nil
}

var errStubNo = &imap.Error{Type: imap.StatusResponseTypeNo, Text: "stub says no"}

type stubSession struct {
	b  *stubBackend
	id int
	// idleStop is the stop channel of the Idle call in progress (nil when none)
	idleStop <-chan struct{}
}

var (
	_ imapserver.SessionIMAP4rev2      = (*stubSession)(nil)
	_ imapserver.SessionSASL           = (*stubSession)(nil)
	_ imapserver.SessionUnauthenticate = (*stubSession)(nil)
)

func (s *stubSession) rec(method string, args ...string) (int, error) {
	c := stubCall{Step: simrt.Step(), Sess: s.id, Method: method, Args: args}
	var err error
	if s.idleStop != nil && method != "Idle" {
		// another session operation while Idle runs: legal only in the instant after Idle was told to stop
		told := false
		select {
		case <-s.idleStop:
			told = true
		default:
		}
		if !told {
			s.b.idleLeaks = append(s.b.idleLeaks, fmt.Sprintf("session #%d: %s invoked while Session.Idle is running and has not been told to stop", s.id, method))
		}
	}
	if s.b.failEach != nil && method != "Close" && method != "Poll" && method != "Idle" && (method != "Unselect" || s.b.failUnselect) && s.b.failEach(method) {
		c.Err = true
		err = errStubNo
	}
	s.b.calls = append(s.b.calls, c)
	return len(s.b.calls) - 1, err
}

func (s *stubSession) Close() error {
	s.rec("Close")
	s.b.closed[s.id]++
	return nil
}

func (s *stubSession) Login(username, password string) error {
	_, err := s.rec("Login", username, password)
	return err
}

func (s *stubSession) AuthenticateMechanisms() []string { return []string{"PLAIN", "LOGIN"} }

func (s *stubSession) Authenticate(mech string) (sasl.Server, error) {
	if _, err := s.rec("Authenticate", mech); err != nil {
		return nil, err
	}
	switch mech {
	case "PLAIN":
		return sasl.NewPlainServer(func(identity, username, password string) error {
			_, err := s.rec("SASLPlain", identity, username, password)
			return err
		}), nil
	case "LOGIN":
		return &loginServer{s: s}, nil
	}
	return nil, &imap.Error{Type: imap.StatusResponseTypeNo, Text: "unsupported mechanism"}
}

// loginServer is a two-challenge SASL mechanism (exercises multi-round AUTHENTICATE exchanges).
type loginServer struct {
	s     *stubSession
	state int
	user  string
}

func (l *loginServer) Next(resp []byte) ([]byte, bool, error) {
	switch l.state {
	case 0:
		l.state = 1
		return []byte("Username:"), false, nil
	case 1:
		l.user = string(resp)
		l.state = 2
		return []byte("Password:"), false, nil
	default:
		_, err := l.s.rec("SASLLogin", l.user, string(resp))
		return nil, true, err
	}
}

func (s *stubSession) Unauthenticate() error {
	_, err := s.rec("Unauthenticate")
	return err
}

func (s *stubSession) Select(mailbox string, options *imap.SelectOptions) (*imap.SelectData, error) {
	ro := options != nil && options.ReadOnly
	if _, err := s.rec("Select", mailbox, fmt.Sprint(ro)); err != nil {
		return nil, err
	}
	return &imap.SelectData{Flags: []imap.Flag{imap.FlagSeen}, PermanentFlags: []imap.Flag{imap.FlagSeen}, NumMessages: 3, UIDNext: 4, UIDValidity: 1}, nil
}

func (s *stubSession) Create(mailbox string, options *imap.CreateOptions) error {
	_, err := s.rec("Create", mailbox)
	return err
}
func (s *stubSession) Delete(mailbox string) error { _, err := s.rec("Delete", mailbox); return err }
func (s *stubSession) Rename(mailbox, newName string) error {
	_, err := s.rec("Rename", mailbox, newName)
	return err
}
func (s *stubSession) Subscribe(mailbox string) error {
	_, err := s.rec("Subscribe", mailbox)
	return err
}
func (s *stubSession) Unsubscribe(mailbox string) error {
	_, err := s.rec("Unsubscribe", mailbox)
	return err
}

func (s *stubSession) List(w *imapserver.ListWriter, ref string, patterns []string, options *imap.ListOptions) error {
	if _, err := s.rec("List", append([]string{ref}, patterns...)...); err != nil {
		return err
	}
	return w.WriteList(&imap.ListData{Delim: '/', Mailbox: "INBOX"})
}

func (s *stubSession) Status(mailbox string, options *imap.StatusOptions) (*imap.StatusData, error) {
	if _, err := s.rec("Status", mailbox); err != nil {
		return nil, err
	}
	n := uint32(3)
	return &imap.StatusData{Mailbox: mailbox, NumMessages: &n}, nil
}

func (s *stubSession) Append(mailbox string, r imap.LiteralReader, options *imap.AppendOptions) (*imap.AppendData, error) {
	i, err := s.rec("Append", mailbox, fmt.Sprint(r.Size()))
	if err != nil {
		// a backend that refuses an APPEND (no such mailbox, over quota) typically does so without reading the message, or
		// after reading part of it: by call index nothing, half, or all of it
		var n int64
		switch i % 3 {
		case 1:
			n, _ = io.CopyN(io.Discard, r, r.Size()/2)
		case 2:
			n, _ = io.Copy(io.Discard, r)
		}
		s.b.calls[i].Bytes = n
		return nil, err
	}
	n, _ := io.Copy(io.Discard, r)
	s.b.calls[i].Bytes = n
	return &imap.AppendData{UID: 9, UIDValidity: 1}, nil
}

func (s *stubSession) Poll(w *imapserver.UpdateWriter, allowExpunge bool) error {
	s.rec("Poll", fmt.Sprint(allowExpunge))
	if s.b.pollHook != nil {
		return s.b.pollHook(s.id, w, allowExpunge)
	}
	return nil
}

func (s *stubSession) Idle(w *imapserver.UpdateWriter, stop <-chan struct{}) error {
	s.rec("Idle")
	s.idleStop = stop
	defer func() { s.idleStop = nil }()
	if s.b.idleHook != nil {
		s.b.idleHook(s.id, w, stop)
		return nil
	}
	simrt.Recv(stop)
	return nil
}

func (s *stubSession) Unselect() error { _, err := s.rec("Unselect"); return err }

func (s *stubSession) Expunge(w *imapserver.ExpungeWriter, uids *imap.UIDSet) error {
	a := "nil"
	if uids != nil {
		a = uids.String()
	}
	if _, err := s.rec("Expunge", a); err != nil {
		return err
	}
	return w.WriteExpunge(1)
}

func (s *stubSession) Search(kind imapserver.NumKind, criteria *imap.SearchCriteria, options *imap.SearchOptions) (*imap.SearchData, error) {
	if _, err := s.rec("Search", append([]string{kind.String()}, searchArgs(criteria)...)...); err != nil {
		return nil, err
	}
	return &imap.SearchData{All: imap.SeqSetNum(1, 2), Count: 2, Min: 1, Max: 2}, nil
}

// searchArgs lists every string that occurs in the criteria, one entry per string.
func searchArgs(c *imap.SearchCriteria) []string {
	if c == nil {
		return nil
	}
	var out []string
	for _, h := range c.Header {
		out = append(out, h.Key, h.Value)
	}
	out = append(out, c.Body...)
	out = append(out, c.Text...)
	for _, f := range c.Flag {
		out = append(out, string(f))
	}
	for _, f := range c.NotFlag {
		out = append(out, string(f))
	}
	for _, n := range c.Not {
		n := n
		out = append(out, searchArgs(&n)...)
	}
	for _, o := range c.Or {
		o := o
		out = append(out, searchArgs(&o[0])...)
		out = append(out, searchArgs(&o[1])...)
	}
	return out
}

func numSetString(ns imap.NumSet) string {
	if ns == nil {
		return "nil"
	}
	return ns.String()
}

func (s *stubSession) Fetch(w *imapserver.FetchWriter, numSet imap.NumSet, options *imap.FetchOptions) error {
	if _, err := s.rec("Fetch", numSetString(numSet)); err != nil {
		return err
	}
	rw := w.CreateMessage(1)
	rw.WriteUID(1)
	rw.WriteFlags([]imap.Flag{imap.FlagSeen})
	if s.b.fetchLit > 0 {
		wc := rw.WriteBodySection(&imap.FetchItemBodySection{}, int64(s.b.fetchLit))
		buf := make([]byte, s.b.fetchLit)
		for i := range buf {
			buf[i] = "0123456789\r\n"[i%12]
		}
		wc.Write(buf)
		wc.Close()
	}
	// echo the requested sections (as a real backend does): their header-field names are client-supplied
	// strings that travel back through the server's encoder
	for _, bs := range options.BodySection {
		wc := rw.WriteBodySection(bs, 3)
		wc.Write([]byte("abc"))
		wc.Close()
	}
	return rw.Close()
}

func (s *stubSession) Store(w *imapserver.FetchWriter, numSet imap.NumSet, flags *imap.StoreFlags, options *imap.StoreOptions) error {
	fl := ""
	if flags != nil {
		for _, f := range flags.Flags {
			fl += string(f) + " "
		}
	}
	if _, err := s.rec("Store", numSetString(numSet), fl); err != nil {
		return err
	}
	rw := w.CreateMessage(1)
	rw.WriteFlags([]imap.Flag{imap.FlagSeen})
	return rw.Close()
}

func (s *stubSession) Copy(numSet imap.NumSet, dest string) (*imap.CopyData, error) {
	if _, err := s.rec("Copy", numSetString(numSet), dest); err != nil {
		return nil, err
	}
	return &imap.CopyData{UIDValidity: 1, SourceUIDs: imap.UIDSetNum(1), DestUIDs: imap.UIDSetNum(7)}, nil
}

func (s *stubSession) Move(w *imapserver.MoveWriter, numSet imap.NumSet, dest string) error {
	if _, err := s.rec("Move", numSetString(numSet), dest); err != nil {
		return err
	}
	if err := w.WriteCopyData(&imap.CopyData{UIDValidity: 1, SourceUIDs: imap.UIDSetNum(1), DestUIDs: imap.UIDSetNum(7)}); err != nil {
		return err
	}
	return w.WriteExpunge(1)
}

func (s *stubSession) Namespace() (*imap.NamespaceData, error) {
	if _, err := s.rec("Namespace"); err != nil {
		return nil, err
	}
	return &imap.NamespaceData{Personal: []imap.NamespaceDescriptor{{Prefix: "", Delim: '/'}}}, nil
}

var _ = time.Second
