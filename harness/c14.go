package harness

import (
	"fmt"
	"sort"
	"strings"
	"time"

	"verif.local/simrt"
)

// C14 — concurrent sessions on shared mailboxes never deadlock or race.

func init() {
	register(&Prop{
		ID:    "C14",
		Level: "exploration",
		Rule: "case = (2..8 raw peers logged in as the same user, each running its own seeded command history over 3 shared mailboxes: SELECT/EXAMINE, COPY and MOVE in both directions, FETCH with bodies, STORE, EXPUNGE, APPEND, LIST, STATUS, SEARCH, CREATE/DELETE/RENAME, IDLE (ended by DONE, by a disconnect or by another line), CLOSE; optionally slow or stalled readers with tiny socket buffers), all truly concurrent, under a seeded schedule with a scheduling point at every mutex Lock/Unlock of server, tracker and backend, every channel operation and every conn call. " +
			"A second pass runs a share of the cases in the race-visible build. Non-trivial: at least two peers completed a command. Distinct: distinct event-log hashes.",
		Components:   "real: imapserver.Server/Conn, trackers, imapmemserver, internal/imapwire (woven); stub: scripted raw peers, network, clock, scheduler",
		Assumptions:  []string{"a stalled peer may delay the others at most until the server's write deadline (30 s / 5 min), so a peer gives up on a reply only after 10 simulated minutes", "lock-order cycles seen in the lock graph are suspects only; a violation is reported only when the deadlock materialises in a run"},
		QuickRuns:    5000,
		ThoroughRuns: 150000,
		RaceDivisor:  6,
		RaceScope:    []string{"imapserver.", "imapmemserver.", "imapwire.", "v2.", "imapnum.", "utf7.", "internal."},
		Run:          runC14,
	})
}

var c14Boxes = []string{"INBOX", "Bravo", "Charlie"}

func genC14Peer(t *simrt.Tape, id int, n int) []rawCmd {
	var cmds []rawCmd
	tagN := 0
	add := func(line string) *rawCmd {
		tagN++
		cmds = append(cmds, textCmd(fmt.Sprintf("p%dx%d", id, tagN), line))
		return &cmds[len(cmds)-1]
	}
	add(`LOGIN "user" "pass"`)
	add("SELECT " + c14Boxes[t.Choose(3)])
	k := 1 + t.Choose(n)
	for i := 0; i < k; i++ {
		box := c14Boxes[t.Choose(3)]
		switch t.Choose(22) {
		case 0, 1, 2:
			add([]string{"COPY 1:* ", "UID COPY 1:* ", "COPY 1 "}[t.Choose(3)] + box)
		case 3, 4:
			add([]string{"MOVE 1 ", "UID MOVE 1:* ", "MOVE 1:2 "}[t.Choose(3)] + box)
		case 5, 6:
			c := add([]string{"FETCH 1:* (FLAGS BODY[])", "FETCH 1:* (UID FLAGS ENVELOPE)", "UID FETCH 1:* (BODY.PEEK[HEADER])", "FETCH 1 (BODYSTRUCTURE)"}[t.Choose(4)])
			if t.Choose(4) == 0 {
				c.Pause = []time.Duration{time.Second, time.Minute, 8 * time.Minute}[t.Choose(3)]
			}
		case 7:
			add([]string{`STORE 1:* +FLAGS (\Deleted)`, `STORE 1 -FLAGS (\Deleted)`, `UID STORE 1:* FLAGS.SILENT (\Seen)`, `STORE 2 +FLAGS (\Flagged custom)`}[t.Choose(4)])
		case 8:
			add([]string{"EXPUNGE", "UID EXPUNGE 1:*", "CLOSE"}[t.Choose(3)])
		case 9, 10:
			c := add("APPEND " + box + " ")
			c.Parts = cat("APPEND "+box+" ", rawPart{IsLit: true, Lit: []byte(sampleMessages[t.Choose(len(sampleMessages))]), Sync: t.Choose(2) == 0})
			c.Name = "APPEND"
		case 11:
			add([]string{`LIST "" "*"`, `LIST "" "%" RETURN (STATUS (MESSAGES UNSEEN))`, `LSUB "" "*"`, `LIST "" ""`, `LIST "" "Bra%"`, `LSUB "" ""`}[t.Choose(6)])
		case 12:
			add("STATUS " + []string{"INBOX", "Bravo", "Charlie", "Delta", "Echo", "Charlie"}[t.Choose(6)] + " (MESSAGES UIDNEXT UNSEEN)")
		case 13:
			add([]string{"SEARCH ALL", "UID SEARCH UNSEEN", `SEARCH BODY "part"`, "SEARCH DELETED"}[t.Choose(4)])
		case 14:
			add([]string{"CREATE Delta", "DELETE Delta", "RENAME Delta Echo", "RENAME Echo Delta", "DELETE Charlie", "CREATE Charlie", "RENAME Charlie Delta", "SUBSCRIBE Bravo", "RENAME Delta Charlie", "RENAME Charlie Echo", "RENAME Echo Charlie"}[t.Choose(11)])
		case 15, 16:
			c := add("IDLE")
			c.Cont = []string{"DONE"}
			c.IdleFor = []time.Duration{0, time.Second, 2 * time.Minute, 31 * time.Minute}[t.Choose(4)]
			switch t.Choose(6) {
			case 0:
				c.Hangup = true // disconnect while idling
				return cmds
			case 1:
				// IDLE ended by something else than DONE, the next command right behind it
				c.Cont = []string{"not done"}
				add([]string{"SELECT " + box, "UNSELECT", "NOOP", "CLOSE"}[t.Choose(4)])
			}
		case 17:
			add("SELECT " + box)
		case 18:
			add("EXAMINE " + box)
		case 19:
			add("NOOP")
		case 20:
			add("UNSELECT")
		default:
			add("NOOP")
		}
		if t.Choose(5) == 0 {
			cmds[len(cmds)-1].NoWait = cmds[len(cmds)-1].Cont == nil
		}
	}
	if t.Choose(2) == 0 {
		add("LOGOUT")
	}
	return cmds
}

func runC14(r *R) {
	t := r.P
	npeers := 2 + t.Choose(7)
	if t.Choose(3) != 0 && npeers > 4 {
		npeers = 2 + t.Choose(3)
	}
	capsVariant := t.Choose(3)
	slow := t.Choose(4) == 0
	var scripts [][]rawCmd
	for i := 0; i < npeers; i++ {
		scripts = append(scripts, genC14Peer(t, i, 7))
	}
	// burst class: one session idles on a large mailbox behind a stalled connection and then disconnects, while
	// another changes every message twice (far more pending notifications than the IDLE channel holds)
	burst := t.Choose(8) == 0
	if burst {
		idle := textCmd("p0x3", "IDLE")
		idle.Cont = []string{"DONE"}
		idle.StallFor = []time.Duration{2 * time.Minute, 10 * time.Minute}[t.Choose(2)]
		idle.Hangup = t.Choose(3) != 0 // otherwise it sends DONE after the stall
		scripts[0] = []rawCmd{textCmd("p0x1", `LOGIN "user" "pass"`), textCmd("p0x2", "SELECT INBOX"), idle}
		wait := textCmd("p1x0", "IDLE") // lets the other session get into its IDLE first
		wait.Cont = []string{"DONE"}
		wait.IdleFor = 30 * time.Second
		scripts[1] = []rawCmd{textCmd("p1x1", `LOGIN "user" "pass"`), textCmd("p1x2", "SELECT INBOX"), wait,
			textCmd("p1x3", `STORE 1:* +FLAGS.SILENT (\Flagged)`), textCmd("p1x4", `STORE 1:* -FLAGS.SILENT (\Flagged)`),
			textCmd("p1x5", "STATUS INBOX (MESSAGES)"), textCmd("p1x6", "LOGOUT")}
	}
	cfg := r.SchedConfig()
	if cfg.SwitchPermille < 100 {
		cfg.SwitchPermille = 100 + 100*t.Choose(5)
	}
	cfg.MaxSteps = 400000
	if burst {
		cfg.MaxSteps = 1500000
	}
	for i, sc := range scripts {
		var names []string
		for j := range sc {
			names = append(names, describeCmd(&sc[j]))
		}
		r.Tracef("peer%d: %s", i, clipStr(strings.Join(names, " | "), 900))
	}
	var peers []*rawPeer
	var log *logBuf
	r.Sim(cfg, func() {
		caps := defaultCaps([]int{0, 2, 3}[capsVariant])
		inboxSize := 3
		if burst {
			inboxSize = 70
			r.Probe("burst_class")
		}
		env := newMemEnv(r, memOpts{caps: caps, mailboxes: map[string]int{"INBOX": inboxSize, "Bravo": 2, "Charlie": 1}, insecureAuth: true})
		log = env.log
		var dones []chan struct{}
		for i := 0; i < npeers; i++ {
			cc := env.Connect(fmt.Sprintf("peer%d", i))
			if (slow && i%2 == 1) || (burst && i == 0) {
				// the server's writes towards this peer block as soon as 64 bytes are unread
				r.Net.PeerOf(cc).SetSendBuffer(64)
			}
			p := newRawPeer(r, fmt.Sprintf("peer%d", i), cc)
			peers = append(peers, p)
			d := make(chan struct{})
			dones = append(dones, d)
			sc := scripts[i]
			simrt.GoTask(p.name, func() {
				defer close(d)
				if p.waitGreeting() {
					p.run(sc)
				}
				p.timeout = 2 * time.Second
				p.drain()
				cc.Close()
			})
		}
		for _, d := range dones {
			waitOrTimeout(d, 72*time.Hour)
		}
		simrt.Sleep(time.Hour)
		env.Shutdown()
	})
	if r.Res.Infra != "" {
		return
	}
	res := r.Res
	if res.StepLimit {
		r.Violate("step-limit", "", "run did not quiesce within %d steps", res.Steps)
		return
	}
	for _, p := range log.panics() {
		r.Violate("server-panic", panicLogClass(p), "%s", clipStr(p, 2500))
	}
	for _, p := range res.Panics {
		r.Violate("panic", panicClass(p), "%s", p)
	}
	// (1) every command completes; nothing blocks forever
	deadlocked := false
	if res.WaitCycle != "" {
		deadlocked = true
		var fs []string
		for _, w := range res.Alive {
			for _, id := range res.CycleIDs {
				if w.ID == id {
					fs = append(fs, normFunc(repoFrame(w.Funcs)))
				}
			}
		}
		sort.Strings(fs)
		r.Violate("deadlock", strings.Join(uniq(fs), ","), "wait-for cycle between goroutines (after every peer finished or gave up and the server was closed):\n%s\n%s", res.WaitCycle, describeAlive(res))
	} else if len(res.Alive) > 0 {
		var stuck []string
		for _, w := range res.Alive {
			f := normFunc(repoFrame(w.Funcs))
			if f == "" {
				f = "harness:" + w.Name
			}
			stuck = append(stuck, f)
		}
		sort.Strings(stuck)
		stuck = dropHarness(uniq(stuck))
		r.Violate("blocked-forever", strings.Join(stuck, ","), "goroutines blocked forever (after every peer finished or gave up and the server was closed):\n%s", describeAlive(res))
	}
	completed := 0
	for _, p := range peers {
		okc := 0
		for _, o := range p.outcomes {
			if o.Reply != nil {
				okc++
			}
			if o.Sent && o.Reply == nil && o.TimedOut && !deadlocked {
				r.Violate("command-never-completed", o.Cmd.Name, "%s: command %s got no reply within 10 simulated minutes although the connection stayed open", p.name, describeCmd(o.Cmd))
			}
		}
		if okc > 1 {
			completed++
		}
	}
	r.Nontrivial = completed >= 2
	// (2) lock-order graph: cycles between lock instances acquired by different goroutines are suspects
	if cyc := lockCycle(res.Edges); cyc != "" {
		r.Probe("lock_order_cycle_suspect")
		r.Probe("lock_order_cycle_suspect:" + cyc)
	}
	if len(r.viol) > 0 {
		for _, l := range log.all() {
			r.Tracef("server log: %s", clipStr(l, 300))
		}
	}
}

// lockCycle looks for a 2-cycle A->B (worker x), B->A (worker y != x) among lock instances.
func lockCycle(edges []simrt.LockEdge) string {
	type key struct{ a, b uintptr }
	first := map[key]simrt.LockEdge{}
	for _, e := range edges {
		if _, ok := first[key{e.From, e.To}]; !ok {
			first[key{e.From, e.To}] = e
		}
	}
	var found []string
	for k, e := range first {
		if k.a >= k.b {
			continue
		}
		if rev, ok := first[key{k.b, k.a}]; ok && rev.Worker != e.Worker {
			s := []string{normFunc(e.FromSite) + "->" + normFunc(e.ToSite), normFunc(rev.FromSite) + "->" + normFunc(rev.ToSite)}
			sort.Strings(s)
			found = append(found, strings.Join(s, " vs "))
		}
	}
	sort.Strings(found)
	if len(found) == 0 {
		return ""
	}
	return found[0]
}
