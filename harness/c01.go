package harness

import (
	"bufio"
	"bytes"
	"fmt"
	"io"
	"strings"
	"time"
	"unicode/utf8"

	"github.com/emersion/go-imap/v2"
	vb "github.com/emersion/go-imap/v2/verifbridge"
	"verif.local/simrt"
	"verif.local/simrt/simnet"
)

// C01 — wire encoder/decoder round trip across a (simulated) connection.
//
// What makes this a simulation target rather than a pure function: the Encoder of one side and the
// Decoder of the other run as two tasks joined by a byte stream that the simulator fragments at
// arbitrary points (so every bufio refill boundary inside quoted strings, literal headers, literal
// data and UTF-7 runs is reached), a synchronising literal is a two-party handshake over the
// reverse direction (the encoder blocks on a ContinuationRequest that a third task completes), and
// a cut of the stream at an arbitrary byte must surface as a decoder error, never as a wrong value.

func init() {
	register(&Prop{
		ID:    "C01",
		Level: "exploration",
		Rule: "case = (direction client->server or server->client, encoder modes QuotedUTF8 / LiteralMinus / LiteralPlus, 1..3 lines of 1..6 values each: byte strings over an alphabet with NUL, CR, LF, quote, backslash, 8-bit and invalid UTF-8 bytes and lengths 0..5 and 4090..4100, valid-UTF-8 mailbox names incl. '&', controls, non-BMP and every case of INBOX, valid and malformed flags and mailbox attributes, uint32 / int64 / uint64 numbers incl. extremes and negatives, sequence and UID sets built through the public API incl. '*', the empty set and the SEARCHRES marker, NIL, streamed literals, lists nested up to 990 deep; decoder entry point per value (ExpectAString / String / ExpectString / ExpectNString / ExpectNStringReader / ExpectLiteralReader); network segmentation whole / byte-wise / tape-chosen, short reads; optionally a FIN or RST cut of the stream at byte k). " +
			"Oracle: every value decodes to the value encoded (modulo the documented canonicalisations), the decoder's consumption after each line equals the bytes the encoder wrote for it, unrepresentable values make the encoder fail, the wire bytes tokenise under the independent scanner to the same shape, a cut yields a decoder error after a correct prefix. Non-trivial: at least one value was compared. Distinct: distinct event-log hashes.",
		Components:   "real: internal/imapwire Encoder and Decoder, internal.ExpectFlag / ExpectMailboxAttr, internal/utf7, imapnum (woven, reached through the generated verifbridge package); stub: continuation writer (decoder side) and continuation reader (encoder side) standing in for imapserver.Conn and imapclient.Client, network, clock, scheduler",
		Assumptions:  []string{"number sets are compared as sets of numbers (ParseSet sorts and merges ranges)", "mod-sequence value 0 is not generated (valid only as mod-sequence-valzer)"},
		QuickRuns:    6000,
		ThoroughRuns: 200000,
		Run:          runC01,
	})
}

type wval struct {
	kind      string // str mailbox flag attr num num64 modseq set nil lit list
	s         string
	n         int64
	u         uint64
	uidSet    bool
	ranges    [][2]uint32 // for set: as added through AddRange / AddNum (0 = "*")
	searchRes bool
	items     []wval
	depth     int // list: extra nesting levels around items
	dec       int // decoder entry point for strings
	chunk     int
	bad       bool // the encoder must refuse this value
}

var c01alphabet = []string{"a", "B", "z", " ", "\x00", "\r", "\n", "\r\n", "\"", "\\", "{", "}", "(", ")", "%", "*", "]", "\x7f", "\x01", "é", "日本", "😀", "\xff", "\xc3", "\x80", "&", "-", "~", "{3}", "{3+}", "NIL"}

func genBytes(t *simrt.Tape) string {
	var sb strings.Builder
	switch t.Choose(8) {
	case 0:
		return ""
	case 1: // around the quoted/literal threshold
		n := 4090 + t.Choose(12)
		fill := []string{"x", "é", "\\", "\""}[t.Choose(4)]
		for sb.Len()+len(fill) <= n {
			sb.WriteString(fill)
		}
		for sb.Len() < n {
			sb.WriteByte('y')
		}
		return sb.String()
	}
	for i, n := 0, 1+t.Choose(6); i < n; i++ {
		sb.WriteString(c01alphabet[t.Choose(len(c01alphabet))])
	}
	return sb.String()
}

func genC01Mailbox(t *simrt.Tape) string {
	switch t.Choose(6) {
	case 0:
		return []string{"INBOX", "inbox", "InBoX", "Inbox"}[t.Choose(4)]
	case 1:
		return []string{"INBOX/sub", "inbox.x", "INBOXX", " INBOX"}[t.Choose(4)]
	}
	pieces := []string{"a", "Z", " ", "/", ".", "&", "&-", "&AOk-", "é", "日本", "😀", "\x01", "\r", "\n", "\x00", "\x7f", "\t", "\x1f", "\u0080", "\"", "\\", "~", "%", "*", "(", "{5}", " ", "�", "\U0010ffff", "+", "-"}
	var sb strings.Builder
	for i, n := 0, 1+t.Choose(7); i < n; i++ {
		sb.WriteString(pieces[t.Choose(len(pieces))])
	}
	if t.Choose(12) == 0 {
		for sb.Len() < 1400+t.Choose(3)*1400 {
			sb.WriteString("é&x")
		}
	}
	return sb.String()
}

var c01wellKnownFlags = map[string]string{
	`\seen`: `\Seen`, `\answered`: `\Answered`, `\flagged`: `\Flagged`, `\deleted`: `\Deleted`, `\draft`: `\Draft`,
	`$forwarded`: `$Forwarded`, `$mdnsent`: `$MDNSent`, `$junk`: `$Junk`, `$notjunk`: `$NotJunk`, `$phishing`: `$Phishing`, `$important`: `$Important`,
}

var c01wellKnownAttrs = map[string]string{
	`\nonexistent`: `\NonExistent`, `\noinferiors`: `\Noinferiors`, `\noselect`: `\Noselect`, `\haschildren`: `\HasChildren`, `\hasnochildren`: `\HasNoChildren`,
	`\marked`: `\Marked`, `\unmarked`: `\Unmarked`, `\subscribed`: `\Subscribed`, `\remote`: `\Remote`, `\all`: `\All`, `\archive`: `\Archive`, `\drafts`: `\Drafts`,
	`\flagged`: `\Flagged`, `\junk`: `\Junk`, `\sent`: `\Sent`, `\trash`: `\Trash`, `\important`: `\Important`,
}

// flagSyntaxOK is the RFC 9051 grammar: flag-keyword = atom, flag-extension = "\" atom.
func flagSyntaxOK(s string, needBackslash bool) bool {
	body := s
	if strings.HasPrefix(s, `\`) {
		body = s[1:]
	} else if needBackslash {
		return false
	}
	if body == "" {
		return false
	}
	for i := 0; i < len(body); i++ {
		c := body[i]
		if c <= 0x20 || c >= 0x7f {
			return false
		}
		switch c {
		case '(', ')', '{', '%', '*', '"', '\\', ']':
			return false
		}
	}
	return true
}

func genFlagText(t *simrt.Tape) string {
	switch t.Choose(6) {
	case 0:
		return []string{`\Seen`, `\SEEN`, `\seen`, `\Deleted`, `\dElEtEd`, `\Answered`, `\FLAGGED`, `\draft`, `$Forwarded`, `$forwarded`, `$MDNSent`, `$JUNK`, `$notjunk`, `$Phishing`, `$IMPORTANT`}[t.Choose(15)]
	case 1:
		return []string{`\Noselect`, `\NOSELECT`, `\HasChildren`, `\hasnochildren`, `\Marked`, `\subscribed`, `\All`, `\ARCHIVE`, `\drafts`, `\Sent`, `\TRASH`, `\NonExistent`, `\noinferiors`, `\Remote`, `\junk`, `\Important`, `\unmarked`}[t.Choose(17)]
	case 2:
		return []string{"custom", "Work", "$label1", `\X-ext`, "a.b-c_d", "UPPER", "x+y", "k=v", "~t", "a:b"}[t.Choose(10)]
	case 3: // malformed
		return []string{"", `\`, "two words", "par(en", "br{ace", `back\slash`, "pct%", "star*", `qu"ote`, "rb]", "ctl\x01", "cr\r", "\\\\x", `\two words`, "nul\x00x"}[t.Choose(15)]
	}
	pieces := []string{"a", "B", "$", `\`, "-", ".", "1", " ", "(", "]", "_", "*"}
	var sb strings.Builder
	for i, n := 0, 1+t.Choose(4); i < n; i++ {
		sb.WriteString(pieces[t.Choose(len(pieces))])
	}
	return sb.String()
}

func genWval(t *simrt.Tape, depthBudget int, clientEnc bool) wval {
	switch t.Choose(14) {
	case 0, 1, 2:
		return wval{kind: "str", s: genBytes(t), dec: t.Choose(5)}
	case 3, 4:
		return wval{kind: "mailbox", s: genC01Mailbox(t)}
	case 5:
		s := genFlagText(t)
		return wval{kind: "flag", s: s, bad: s != `\*` && !flagSyntaxOK(s, false)}
	case 6:
		s := genFlagText(t)
		return wval{kind: "attr", s: s, bad: !flagSyntaxOK(s, true)}
	case 7:
		switch t.Choose(3) {
		case 0:
			return wval{kind: "num", u: uint64([]uint32{0, 1, 9, 10, 4294967295, 2147483648, 65536}[t.Choose(7)])}
		case 1:
			n := []int64{0, 1, 4096, 4294967296, 1<<63 - 1, -1, -9223372036854775808, 99999999999}[t.Choose(8)]
			return wval{kind: "num64", n: n, bad: n < 0}
		}
		return wval{kind: "modseq", u: []uint64{1, 2, 18446744073709551615, 9223372036854775808, 4294967296}[t.Choose(5)]}
	case 8, 9:
		v := wval{kind: "set", uidSet: t.Choose(2) == 0}
		switch t.Choose(8) {
		case 0:
			v.bad = true // empty set
			return v
		case 1:
			if v.uidSet {
				v.searchRes = true
				return v
			}
		}
		nums := []uint32{0, 1, 2, 3, 5, 9, 10, 100, 4294967294, 4294967295}
		for i, n := 0, 1+t.Choose(4); i < n; i++ {
			a := nums[t.Choose(len(nums))]
			b := a
			if t.Choose(2) == 0 {
				b = nums[t.Choose(len(nums))]
			}
			v.ranges = append(v.ranges, [2]uint32{a, b})
		}
		return v
	case 10:
		return wval{kind: "nil", dec: t.Choose(3)}
	case 11:
		if t.Choose(2) == 0 {
			return wval{kind: "lit", s: genBytes(t), chunk: 1 + t.Choose(50), dec: t.Choose(2)}
		}
		return wval{kind: "str", s: genBytes(t), dec: t.Choose(5)}
	default:
		if depthBudget <= 0 {
			return wval{kind: "num", u: 7}
		}
		if depthBudget == 3 && t.Choose(8) == 0 {
			// a long flat list of empty lists: nesting depth 2, far below the cap, however many there are
			return wval{kind: "empties", n: int64([]int{3, 999, 1001, 1500, 2500}[t.Choose(5)])}
		}
		v := wval{kind: "list"}
		if t.Choose(6) == 0 && depthBudget == 3 { // (total nesting stays below the decoder's cap of 1000)
			v.depth = []int{1, 10, 100, 500, 990}[t.Choose(5)]
		}
		for i, n := 0, t.Choose(4); i < n; i++ {
			v.items = append(v.items, genWval(t, depthBudget-1, clientEnc))
		}
		return v
	}
}

func (v *wval) anyBad() bool {
	if v.bad {
		return true
	}
	for i := range v.items {
		if v.items[i].anyBad() {
			return true
		}
	}
	return false
}

// firstBad returns the first value the encoder must refuse.
func (v *wval) firstBad() *wval {
	if v.bad {
		return v
	}
	for i := range v.items {
		if b := v.items[i].firstBad(); b != nil {
			return b
		}
	}
	return nil
}

func (v *wval) describe() string {
	switch v.kind {
	case "str", "mailbox", "flag", "attr", "lit":
		return fmt.Sprintf("%s(%q)", v.kind, clipStr(v.s, 60))
	case "num", "modseq":
		return fmt.Sprintf("%s(%d)", v.kind, v.u)
	case "num64":
		return fmt.Sprintf("num64(%d)", v.n)
	case "set":
		if v.searchRes {
			return "set($)"
		}
		return fmt.Sprintf("set(uid=%v %v)", v.uidSet, v.ranges)
	case "empties":
		return fmt.Sprintf("list of %d empty lists", v.n)
	case "list":
		var p []string
		for i := range v.items {
			p = append(p, v.items[i].describe())
		}
		return fmt.Sprintf("list(depth+%d: %s)", v.depth, strings.Join(p, " "))
	}
	return v.kind
}

func (v *wval) numSet() imap.NumSet {
	if v.searchRes {
		return imap.SearchRes()
	}
	if v.uidSet {
		var s imap.UIDSet
		for _, rg := range v.ranges {
			if rg[0] == rg[1] {
				s.AddNum(imap.UID(rg[0]))
			} else {
				s.AddRange(imap.UID(rg[0]), imap.UID(rg[1]))
			}
		}
		return s
	}
	var s imap.SeqSet
	for _, rg := range v.ranges {
		if rg[0] == rg[1] {
			s.AddNum(rg[0])
		} else {
			s.AddRange(rg[0], rg[1])
		}
	}
	return s
}

// setContains is the meaning of the generated ranges: 0 stands for "*".
func (v *wval) setContains(q uint32) bool {
	for _, rg := range v.ranges {
		a, b := rg[0], rg[1]
		switch {
		case a == 0 && b == 0:
			continue // "*" alone names no static number
		case a == 0 || b == 0:
			if q >= a+b {
				return true
			}
		default:
			if a > b {
				a, b = b, a
			}
			if q >= a && q <= b {
				return true
			}
		}
	}
	return false
}

func (v *wval) setDynamic() bool {
	for _, rg := range v.ranges {
		if rg[0] == 0 || rg[1] == 0 {
			return true
		}
	}
	return false
}

func c01encode(enc *vb.Encoder, v *wval) {
	switch v.kind {
	case "str":
		enc.String(v.s)
	case "mailbox":
		enc.Mailbox(v.s)
	case "flag":
		enc.Flag(imap.Flag(v.s))
	case "attr":
		enc.MailboxAttr(imap.MailboxAttr(v.s))
	case "num":
		enc.Number(uint32(v.u))
	case "num64":
		enc.Number64(v.n)
	case "modseq":
		enc.ModSeq(v.u)
	case "set":
		enc.NumSet(v.numSet())
	case "nil":
		enc.NIL()
	case "lit":
		var sync *vb.ContinuationRequest
		if enc.NewContinuationRequest != nil && !enc.LiteralPlus && !(enc.LiteralMinus && len(v.s) <= 4096) {
			sync = enc.NewContinuationRequest()
		}
		wc := enc.Literal(int64(len(v.s)), sync)
		for off := 0; off < len(v.s); off += v.chunk {
			end := off + v.chunk
			if end > len(v.s) {
				end = len(v.s)
			}
			if _, err := io.WriteString(wc, v.s[off:end]); err != nil {
				break
			}
		}
		wc.Close()
	case "empties":
		enc.List(int(v.n), func(int) { enc.List(0, nil) })
	case "list":
		for i := 0; i < v.depth; i++ {
			enc.Special('(')
		}
		enc.List(len(v.items), func(i int) { c01encode(enc, &v.items[i]) })
		for i := 0; i < v.depth; i++ {
			enc.Special(')')
		}
	}
}

type c01decoder struct {
	r        *R
	dec      *vb.Decoder
	contOut  io.Writer // where "+" goes (decoder on the server side), nil on the client side
	compared int
}

// decode reads one value and compares; it returns "" on success, a description of the failure otherwise.
// failed=true means the decoder reported an error (acceptable only after a cut).
func (d *c01decoder) decode(v *wval) (mismatch string, failed bool) {
	dec := d.dec
	fail := func(what string) (string, bool) {
		return fmt.Sprintf("%s: decoder failed on %s: %v", what, v.describe(), dec.Err()), true
	}
	cmp := func(got, want string) (string, bool) {
		d.compared++
		if len(want) > 4096 {
			d.r.Probe("string-over-4096")
		}
		if v.kind == "mailbox" && want == "INBOX" && v.s != "INBOX" {
			d.r.Probe("inbox-folded")
		}
		if got != want {
			return fmt.Sprintf("%s decoded as %q", v.describe(), clipStr(got, 80)), false
		}
		return "", false
	}
	readLit := func(lit *vb.LiteralReader, nonSync bool) (string, error) {
		if lit == nil {
			return "", nil
		}
		if !nonSync && d.contOut != nil {
			d.r.Probe("sync-literal-handshake")
			if _, err := io.WriteString(d.contOut, "+ go\r\n"); err != nil {
				return "", err
			}
		} else if nonSync {
			d.r.Probe("nonsync-literal")
		}
		d.r.Probe("literal-streamed")
		var sb strings.Builder
		buf := make([]byte, 1+v.chunk%37)
		for {
			n, err := lit.Read(buf)
			sb.Write(buf[:n])
			if err == io.EOF {
				return sb.String(), nil
			}
			if err != nil {
				return sb.String(), err
			}
		}
	}
	switch v.kind {
	case "str":
		var got string
		switch v.dec {
		case 0:
			if !dec.ExpectAString(&got) {
				return fail("ExpectAString")
			}
		case 1:
			if !dec.ExpectString(&got) {
				return fail("ExpectString")
			}
		case 2:
			if !dec.ExpectNString(&got) {
				return fail("ExpectNString")
			}
		case 3:
			if !dec.String(&got) {
				return fail("String")
			}
		default:
			lit, nonSync, ok := dec.ExpectNStringReader()
			if !ok {
				return fail("ExpectNStringReader")
			}
			if lit == nil {
				return fmt.Sprintf("%s decoded as NIL by ExpectNStringReader", v.describe()), false
			}
			if lit.Size() != int64(len(v.s)) {
				return fmt.Sprintf("%s: literal reader announces %d bytes", v.describe(), lit.Size()), false
			}
			s, err := readLit(lit, nonSync)
			if err != nil {
				return fmt.Sprintf("reading %s: %v", v.describe(), err), true
			}
			got = s
		}
		return cmp(got, v.s)
	case "lit":
		var got string
		if v.dec == 0 {
			lit, nonSync, err := dec.ExpectLiteralReader()
			if err != nil {
				return fail("ExpectLiteralReader")
			}
			s, err := readLit(lit, nonSync)
			if err != nil {
				return fmt.Sprintf("reading %s: %v", v.describe(), err), true
			}
			got = s
		} else if !dec.ExpectString(&got) {
			return fail("ExpectString")
		}
		return cmp(got, v.s)
	case "mailbox":
		var got string
		if !dec.ExpectMailbox(&got) {
			return fail("ExpectMailbox")
		}
		want := v.s
		if strings.EqualFold(want, "INBOX") {
			want = "INBOX"
		}
		return cmp(got, want)
	case "flag":
		f, err := vb.ExpectFlag(dec)
		if err != nil {
			return fail("ExpectFlag")
		}
		want := v.s
		if c, ok := c01wellKnownFlags[strings.ToLower(v.s)]; ok {
			want = c
		}
		return cmp(string(f), want)
	case "attr":
		a, err := vb.ExpectMailboxAttr(dec)
		if err != nil {
			return fail("ExpectMailboxAttr")
		}
		// (attributes go through the flag canonicalisation first, then through their own)
		want := v.s
		if c, ok := c01wellKnownFlags[strings.ToLower(want)]; ok {
			want = c
		}
		if c, ok := c01wellKnownAttrs[strings.ToLower(want)]; ok {
			want = c
		}
		return cmp(string(a), want)
	case "num":
		var got uint32
		if !dec.ExpectNumber(&got) {
			return fail("ExpectNumber")
		}
		return cmp(fmt.Sprint(got), fmt.Sprint(v.u))
	case "num64":
		var got int64
		if !dec.ExpectNumber64(&got) {
			return fail("ExpectNumber64")
		}
		return cmp(fmt.Sprint(got), fmt.Sprint(v.n))
	case "modseq":
		var got uint64
		if !dec.ExpectModSeq(&got) {
			return fail("ExpectModSeq")
		}
		return cmp(fmt.Sprint(got), fmt.Sprint(v.u))
	case "nil":
		switch v.dec {
		case 0:
			if !dec.ExpectNIL() {
				return fail("ExpectNIL")
			}
		case 1:
			got := "x"
			if !dec.ExpectNString(&got) {
				return fail("ExpectNString")
			}
			return cmp(got, "")
		default:
			lit, _, ok := dec.ExpectNStringReader()
			if !ok {
				return fail("ExpectNStringReader")
			}
			if lit != nil {
				return "NIL decoded as a string by ExpectNStringReader", false
			}
		}
		d.compared++
		return "", false
	case "set":
		kind := vb.NumKindSeq
		if v.uidSet {
			kind = vb.NumKindUID
		}
		var got imap.NumSet
		if !dec.ExpectNumSet(kind, &got) {
			return fail("ExpectNumSet")
		}
		d.compared++
		if v.searchRes {
			if !imap.IsSearchRes(got) {
				return fmt.Sprintf("the SEARCHRES marker decoded as %v", got), false
			}
			return "", false
		}
		if imap.IsSearchRes(got) {
			return fmt.Sprintf("%s decoded as the SEARCHRES marker", v.describe()), false
		}
		if got.Dynamic() != v.setDynamic() {
			return fmt.Sprintf("%s decoded as %v (dynamic=%v)", v.describe(), got, got.Dynamic()), false
		}
		contains := func(q uint32) bool {
			switch s := got.(type) {
			case imap.SeqSet:
				if v.uidSet {
					return !v.setContains(q) // forces a mismatch: wrong kind
				}
				return s.Contains(q)
			case imap.UIDSet:
				if !v.uidSet {
					return !v.setContains(q)
				}
				return s.Contains(imap.UID(q))
			}
			return false
		}
		for _, rg := range v.ranges {
			for _, e := range rg {
				for _, q := range []uint32{e - 1, e, e + 1} {
					if q != 0 && contains(q) != v.setContains(q) {
						return fmt.Sprintf("%s decoded as %v: membership of %d differs", v.describe(), got, q), false
					}
				}
			}
		}
		return "", false
	case "empties":
		got := 0
		err := dec.ExpectList(func() error {
			got++
			return dec.ExpectList(func() error { return fmt.Errorf("an empty list has an item") })
		})
		if err != nil {
			return fmt.Sprintf("%s: item %d: %v", v.describe(), got, err), dec.Err() != nil
		}
		d.compared++
		d.r.Probe("many-empty-lists")
		if int64(got) != v.n {
			return fmt.Sprintf("%s: the decoder finds %d items", v.describe(), got), false
		}
		return "", false
	case "list":
		// the extra nesting levels
		var inner func(level int) (string, bool)
		inner = func(level int) (string, bool) {
			if level < v.depth {
				var m string
				var f bool
				err := dec.ExpectList(func() error {
					m, f = inner(level + 1)
					if m != "" {
						return fmt.Errorf("stop")
					}
					return nil
				})
				if m != "" {
					return m, f
				}
				if err != nil {
					return fmt.Sprintf("ExpectList at nesting level %d of %s: %v", level, v.describe(), err), true
				}
				return "", false
			}
			i := 0
			var m string
			var f bool
			err := dec.ExpectList(func() error {
				if i >= len(v.items) {
					m = fmt.Sprintf("%s: the decoder finds more than %d items", v.describe(), len(v.items))
					return fmt.Errorf("stop")
				}
				m, f = d.decode(&v.items[i])
				i++
				if m != "" {
					return fmt.Errorf("stop")
				}
				return nil
			})
			if m != "" {
				return m, f
			}
			if err != nil {
				return fmt.Sprintf("ExpectList of %s: %v", v.describe(), err), true
			}
			if i != len(v.items) {
				return fmt.Sprintf("%s: the decoder finds %d items", v.describe(), i), false
			}
			d.compared++
			if v.depth >= 500 {
				d.r.Probe("list-nesting-over-500")
			}
			return "", false
		}
		return inner(0)
	}
	return "unknown kind " + v.kind, false
}

// c01shape renders the token tree the independent scanner must find for a value ("?" where the
// scanner's view is not predicted).
func c01shape(v *wval, sb *strings.Builder) {
	switch v.kind {
	case "str", "lit":
		fmt.Fprintf(sb, "s%d ", len(v.s))
	case "mailbox":
		sb.WriteString("m ")
	case "empties":
		sb.WriteString("( ")
		for i := int64(0); i < v.n; i++ {
			sb.WriteString("( ) ")
		}
		sb.WriteString(") ")
	case "list":
		for i := 0; i < v.depth; i++ {
			sb.WriteString("( ")
		}
		sb.WriteString("( ")
		for i := range v.items {
			c01shape(&v.items[i], sb)
		}
		sb.WriteString(") ")
		for i := 0; i < v.depth; i++ {
			sb.WriteString(") ")
		}
	default:
		sb.WriteString("a ")
	}
}

func c01tokShape(t Tok, sb *strings.Builder, mailboxAt func() bool) {
	switch t.Kind {
	case '(':
		sb.WriteString("( ")
		for _, x := range t.L {
			c01tokShape(x, sb, mailboxAt)
		}
		sb.WriteString(") ")
	case 'q', 'l':
		fmt.Fprintf(sb, "s%d ", len(t.S))
	default:
		sb.WriteString("a ")
	}
}

// runC01EightBit: flags and mailbox attributes with 8-bit bytes. The library tolerates some of them in atoms, so
// nothing is demanded about acceptance; but what one side's encoder accepts, the other side's decoder must read
// back unchanged (encoder and decoder must agree on what an atom is).
func runC01EightBit(r *R) {
	t := r.P
	clientEnc := t.Choose(2) == 0
	isAttr := t.Choose(2) == 0
	pool := []string{"é", "café", "日本", "€", "x\x85y", "Ж", "\xc3", "naïve", "Ünï", "a\u00a0b", "\xff", "ＡＢ", "\xe6\x97", "ok-ascii"}
	n := 1 + t.Choose(3)
	var vals []string
	for i := 0; i < n; i++ {
		v := pool[t.Choose(len(pool))]
		if isAttr || t.Choose(3) == 0 {
			v = "\\" + v
		}
		vals = append(vals, v)
	}
	segMode := t.Choose(3)
	cfg := r.SchedConfig()
	var encErr error
	var got []string
	var decErr string
	r.Sim(cfg, func() {
		ec, dc := r.Net.Pair("enc", "dec")
		if segMode > 0 {
			ec.SetSegMode(segMode)
		}
		encSide, decSide := vb.ConnSideServer, vb.ConnSideClient
		if clientEnc {
			encSide, decSide = vb.ConnSideClient, vb.ConnSideServer
		}
		encDone, decDone := make(chan struct{}), make(chan struct{})
		simrt.GoTask("encoder", func() {
			defer close(encDone)
			enc := vb.NewEncoder(bufio.NewWriter(ec), encSide)
			enc.List(len(vals), func(i int) {
				if isAttr {
					enc.MailboxAttr(imap.MailboxAttr(vals[i]))
				} else {
					enc.Flag(imap.Flag(vals[i]))
				}
			})
			encErr = enc.CRLF()
			if encErr != nil {
				ec.Close()
			}
		})
		simrt.GoTask("decoder", func() {
			defer close(decDone)
			dec := vb.NewDecoder(bufio.NewReader(dc), decSide)
			err := dec.ExpectList(func() error {
				var s string
				if isAttr {
					a, err := vb.ExpectMailboxAttr(dec)
					if err != nil {
						return err
					}
					s = string(a)
				} else {
					f, err := vb.ExpectFlag(dec)
					if err != nil {
						return err
					}
					s = string(f)
				}
				got = append(got, s)
				return nil
			})
			if err == nil && !dec.ExpectCRLF() {
				err = dec.Err()
			}
			if err != nil {
				decErr = err.Error()
			}
		})
		waitOrTimeout(decDone, time.Hour)
		dc.Close()
		waitOrTimeout(encDone, time.Hour)
		ec.Close()
	})
	if r.Res.Infra != "" {
		return
	}
	r.Nontrivial = true
	r.Probe("eight-bit-flag-scenario")
	if encErr != nil {
		r.Probe("eight-bit-flag-refused")
	} else {
		r.Probe("eight-bit-flag-accepted")
		if decErr != "" || fmt.Sprintf("%q", got) != fmt.Sprintf("%q", vals) {
			r.Violate("round-trip", "eight-bit flag", "the encoder accepted %q (attributes: %v) without error, but the peer's decoder read %q (error: %s)", vals, isAttr, got, decErr)
		}
	}
	r.CheckLiveness(false)
}

func runC01(r *R) {
	t := r.P
	if t.Choose(12) == 11 {
		runC01EightBit(r)
		return
	}
	clientEnc := t.Choose(2) == 0
	quotedUTF8 := t.Choose(2) == 0
	litMinus := t.Choose(3) == 0
	litPlus := t.Choose(4) == 0
	segMode := t.Choose(4)
	shortReads := t.Choose(3) == 0
	nlines := 1 + t.Choose(3)
	lines := make([][]wval, nlines)
	badLine := -1
	for i := range lines {
		for j, n := 0, 1+t.Choose(6); j < n; j++ {
			v := genWval(t, 3, clientEnc)
			lines[i] = append(lines[i], v)
		}
		for j := range lines[i] {
			if lines[i][j].anyBad() && badLine < 0 {
				badLine = i
			}
		}
		if badLine >= 0 {
			lines = lines[:i+1]
			break
		}
	}
	cutKind, cutAt := simnet.CutNone, int64(0)
	if t.Choose(5) == 0 {
		cutKind = []int{simnet.CutFIN, simnet.CutRST}[t.Choose(2)]
		cutAt = int64(t.Choose(12))
		if t.Choose(2) == 0 {
			cutAt = int64(t.Choose(6000))
		}
	}
	cfg := r.SchedConfig()
	cfg.MaxSteps = 400000

	encEnds := make([]int64, 0, len(lines)) // encoder task: stream offset after each line
	decEnds := make([]int64, 0, len(lines)) // decoder task: consumed offset after each line
	var encErr error
	var encBadAccepted, encBadKind string
	compared := 0
	decStopped := ""
	var wire []byte
	cutFired := false
	var decHung, encHung bool
	r.Sim(cfg, func() {
		ec, dc := r.Net.Pair("enc", "dec")
		if segMode > 0 && segMode < 3 {
			ec.SetSegMode(segMode)
		}
		dc.SetShortReads(shortReads)
		if cutKind != simnet.CutNone {
			dc.CutIncoming(cutKind, cutAt)
		}
		encSide, decSide := vb.ConnSideServer, vb.ConnSideClient
		if clientEnc {
			encSide, decSide = vb.ConnSideClient, vb.ConnSideServer
		}
		bw := bufio.NewWriter(ec)
		enc := vb.NewEncoder(bw, encSide)
		enc.QuotedUTF8 = quotedUTF8
		pending := make(chan *vb.ContinuationRequest, 4096)
		dead := make(chan struct{})
		contDone := make(chan struct{})
		if clientEnc {
			enc.LiteralMinus, enc.LiteralPlus = litMinus, litPlus
			enc.NewContinuationRequest = func() *vb.ContinuationRequest {
				cr := vb.NewContinuationRequest()
				if idx, _, _ := simrt.Select(true, simrt.RecvCase(dead)); idx == 0 {
					cr.Cancel(fmt.Errorf("connection lost"))
					return cr
				}
				pending <- cr
				return cr
			}
			// the continuation reader (what imapclient's read loop does for "+")
			simrt.GoTask("cont-reader", func() {
				defer close(contDone)
				br := bufio.NewReader(ec)
				for {
					line, err := br.ReadString('\n')
					if err != nil {
						close(dead)
						for {
							select {
							case cr := <-pending:
								cr.Cancel(err)
							default:
								return
							}
						}
					}
					if strings.HasPrefix(line, "+") {
						select {
						case cr := <-pending:
							cr.Done(strings.TrimSpace(line[1:]))
						default:
							r.Violate("harness", "unexpected continuation", "%q", line)
						}
					}
				}
			})
		} else {
			close(contDone)
		}
		encDone := make(chan struct{})
		simrt.GoTask("encoder", func() {
			defer close(encDone)
			for li := range lines {
				for j := range lines[li] {
					if j > 0 {
						enc.SP()
					}
					c01encode(enc, &lines[li][j])
				}
				err := enc.CRLF()
				if li == badLine {
					if err != nil {
						r.Probe("unrepresentable-refused")
					}
					if err == nil {
						for j := range lines[li] {
							if b := lines[li][j].firstBad(); b != nil && encBadAccepted == "" {
								encBadAccepted, encBadKind = b.describe(), b.kind
								if b.kind == "flag" || b.kind == "attr" {
									encBadKind += ":" + fmt.Sprintf("%q", b.s)
								}
							}
						}
					}
					ec.Close() // ends the decoder side's drain loop
					break
				}
				if err != nil {
					encErr = fmt.Errorf("line %d: %w", li, err)
					break
				}
				encEnds = append(encEnds, ec.OutWritten())
			}
			// half-close is not available: wait for the decoder to finish before closing
		})
		decDone := make(chan struct{})
		simrt.GoTask("decoder", func() {
			defer close(decDone)
			br := bufio.NewReader(dc)
			dec := vb.NewDecoder(br, decSide)
			d := &c01decoder{r: r, dec: dec}
			if decSide == vb.ConnSideServer {
				d.contOut = dc
				dec.CheckBufferedLiteralFunc = func(size int64, nonSync bool) error {
					if !nonSync {
						r.Probe("sync-literal-handshake")
						_, err := io.WriteString(dc, "+ Ready\r\n")
						return err
					}
					r.Probe("nonsync-literal")
					return nil
				}
			}
			defer func() { compared = d.compared }()
			for li := range lines {
				if li == badLine {
					// The encoder is expected to fail on this line. Whatever it writes before that is drained by a
					// permissive reader that answers every synchronising literal, so that the encoder is never
					// left waiting and its verdict on the unrepresentable value is what CRLF returns.
					for {
						raw, err := br.ReadBytes('\n')
						if err != nil {
							return
						}
						raw = bytes.TrimSuffix(bytes.TrimSuffix(raw, []byte("\n")), []byte("\r"))
						if size, nonSync, _, _, ok := literalSuffix(raw); ok {
							if !nonSync && d.contOut != nil {
								io.WriteString(d.contOut, "+ go\r\n")
							}
							if _, err := io.CopyN(io.Discard, br, size); err != nil {
								return
							}
						}
					}
				}
				for j := range lines[li] {
					if j > 0 && !dec.ExpectSP() {
						decStopped = fmt.Sprintf("line %d value %d: ExpectSP failed: %v", li, j, dec.Err())
						return
					}
					m, failed := d.decode(&lines[li][j])
					if m != "" && dec.Err() != nil {
						failed = true // the decoder did report the failure; what the callbacks saw before that is no result
					}
					if m != "" {
						if failed {
							if cutKind != simnet.CutNone {
								r.Probe("cut-reported-as-error")
							}
							decStopped = fmt.Sprintf("line %d value %d: %s", li, j, m)
						} else if cutKind != simnet.CutNone {
							r.Violate("truncated-value", lines[li][j].kind, "the stream was cut (%s at byte %d) and line %d value %d was delivered as complete: %s", simnet.CutNames[cutKind], cutAt, li, j, m)
						} else {
							r.Violate("round-trip", lines[li][j].kind, "line %d value %d: %s (direction %s, QuotedUTF8=%v LiteralMinus=%v LiteralPlus=%v)", li, j, m, map[bool]string{true: "client->server", false: "server->client"}[clientEnc], quotedUTF8, litMinus, litPlus)
						}
						return
					}
				}
				if !dec.ExpectCRLF() {
					decStopped = fmt.Sprintf("line %d: ExpectCRLF failed: %v", li, dec.Err())
					return
				}
				decEnds = append(decEnds, dc.InConsumed()-int64(br.Buffered()))
			}
		})
		if !waitOrTimeout(decDone, time.Hour) {
			decHung = true
		}
		dc.Close()
		if !waitOrTimeout(encDone, time.Hour) {
			encHung = true
		}
		ec.Close()
		waitOrTimeout(contDone, time.Hour)
		wire = append([]byte{}, ec.Written()...)
		cutFired = dc.PeerGone() && cutKind != simnet.CutNone
	})
	if r.Res.Infra != "" {
		return
	}
	r.Nontrivial = compared > 0
	where := fmt.Sprintf("direction %s, QuotedUTF8=%v LiteralMinus=%v LiteralPlus=%v", map[bool]string{true: "client->server", false: "server->client"}[clientEnc], quotedUTF8, litMinus, litPlus)
	if decHung {
		r.Violate("decoder-hang", "", "the decoder task did not finish within an hour of simulated time (%s)", where)
	}
	if encHung && cutKind == simnet.CutNone {
		r.Violate("encoder-hang", "", "the encoder task did not finish (%s)", where)
	}
	if encBadAccepted != "" {
		r.Violate("unrepresentable-accepted", encBadKind, "the encoder reported no error for %s; it wrote %q", encBadAccepted, clipStr(string(wire[func() int {
			if len(encEnds) > 0 {
				return int(encEnds[len(encEnds)-1])
			}
			return 0
		}():]), 200))
	}
	if cutKind == simnet.CutNone && len(r.viol) == 0 {
		if encErr != nil {
			r.Violate("encoder-refused", "", "the encoder failed on representable values: %v (%s)", encErr, where)
		} else if decStopped != "" {
			r.Violate("decode-failed", "", "%s (%s); wire: %q", decStopped, where, clipStr(string(wire), 300))
		}
	}
	_ = cutFired
	// consumption: after each completely decoded line the decoder stands exactly where the encoder stood
	for i := range decEnds {
		if i < len(encEnds) && decEnds[i] != encEnds[i] {
			r.Violate("consumed-bytes", "", "after line %d the decoder has consumed %d bytes, the encoder wrote %d (%s)", i, decEnds[i], encEnds[i], where)
			break
		}
	}
	// independent view of the wire: same shape under the harness' own scanner
	if cutKind == simnet.CutNone && encErr == nil && len(r.viol) == 0 {
		n := len(encEnds)
		var want strings.Builder
		for li := 0; li < n; li++ {
			for j := range lines[li] {
				c01shape(&lines[li][j], &want)
			}
			want.WriteString("| ")
		}
		var got strings.Builder
		end := 0
		if n > 0 {
			end = int(encEnds[n-1])
		}
		wl := SplitLines(wire[:end], nil)
		deep := false
		for _, ln := range wl {
			toks, err := ParseTokens(ln, 0)
			if err != nil {
				if strings.Contains(err.Error(), "depth") || strings.Contains(err.Error(), "nest") {
					deep = true
					break
				}
				r.Violate("wire-syntax", "", "the independent scanner rejects the encoder's output: %v; line %q (%s)", err, clipStr(string(ln.Raw), 300), where)
				return
			}
			for _, tk := range toks {
				c01tokShape(tk, &got, nil)
			}
			got.WriteString("| ")
		}
		ws := strings.ReplaceAll(want.String(), "m ", "? ")
		gs := got.String()
		if !deep && !c01shapeEq(ws, gs) {
			r.Violate("wire-syntax", "shape", "the independent scanner sees %q where the values written have shape %q; wire %q (%s)", clipStr(gs, 300), clipStr(ws, 300), clipStr(string(wire[:end]), 300), where)
		}
	}
	r.CheckLiveness(false)
	_ = utf8.RuneError
}

// c01shapeEq compares two shapes; "?" in want matches one atom or string token.
func c01shapeEq(want, got string) bool {
	w, g := strings.Fields(want), strings.Fields(got)
	if len(w) != len(g) {
		return false
	}
	for i := range w {
		if w[i] == "?" {
			if g[i] == "(" || g[i] == ")" || g[i] == "|" {
				return false
			}
			continue
		}
		if w[i] != g[i] {
			return false
		}
	}
	return true
}
