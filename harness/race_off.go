//go:build !race

package harness

const raceBuild = false

func raceMark(outDir string, worker int) int64 { return 0 }

func raceViolations(outDir string, worker int, mark int64, sum *workerSummary) []Violation {
	return nil
}
