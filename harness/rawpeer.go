package harness

import (
	"fmt"

	"strings"
	"time"
	"verif.local/simrt"

	"net"
)

// rawPart is one piece of a raw command: literal text, or a literal (header + payload).
type rawPart struct {
	Text  string
	IsLit bool
	Lit   []byte
	Sync  bool // synchronising literal: the peer waits for "+" before sending the payload
	Bin   bool // literal8 ("~{n}")
	// Announce overrides the announced size (default len(Lit)); used for huge literals whose
	// payload is never sent because the server must refuse them first.
	Announce uint64
}

// rawCmd is one command sent by the scripted raw peer.
type rawCmd struct {
	Tag   string
	Name  string // for traces and oracles
	Parts []rawPart
	// Cont are the continuation lines sent (each after a "+") once the command line is complete:
	// SASL responses for AUTHENTICATE, "DONE" for IDLE.
	Cont []string
	// IdleFor: simulated time to stay idle before sending DONE.
	IdleFor time.Duration
	NoWait  bool          // pipelined: do not wait for the tagged reply before sending the next command
	Hangup  bool          // close the connection instead of sending the last continuation line (e.g. disconnect while idling)
	Pause   time.Duration // after sending, do not read anything for this long (slow / stalled reader)
	// StallFor: after the "+" of IDLE, neither read nor write for this long (a stalled idler), then go on
	// with IdleFor / Hangup / DONE
	StallFor time.Duration
	Poison   []string
}

func textCmd(tag, line string) rawCmd {
	name := line
	if i := strings.IndexByte(line, ' '); i >= 0 {
		name = line[:i]
	}
	return rawCmd{Tag: tag, Name: strings.ToUpper(name), Parts: []rawPart{{Text: line}}}
}

// cmdOutcome is what the peer observed for one command.
type cmdOutcome struct {
	Cmd        *rawCmd
	Sent       bool // the command line was completely sent (or ended by a refusal)
	Refused    bool // a synchronising literal was answered by a tagged reply instead of "+"
	Conts      int  // continuation requests received while sending this command
	Reply      *Resp
	ReplyIdx   int
	Closed     bool // connection ended before the tagged reply
	TimedOut   bool
	SendErr    error
	SentAtStep int
	FromIdx    int           // number of responses parsed when the command started to be sent
	LitWait    time.Duration // simulated time spent waiting for the answer to a synchronising literal announcement
	Invited    []litInvite   // synchronising literals the server answered with a continuation request
}

type litInvite struct {
	Size uint64 // announced size
	Last bool   // the literal is the command's last literal (the message of an APPEND)
}

// judgeInvites: the server invites ("+") a synchronising literal only if it is willing to take it: at most 4096 bytes
// for a buffered string argument, at most the 100 MiB limit for the message of an APPEND.
func judgeInvites(r *R, outcomes []*cmdOutcome, phase string) {
	for _, o := range outcomes {
		for _, iv := range o.Invited {
			limit := uint64(4096)
			if o.Cmd.Name == "APPEND" && iv.Last {
				limit = 100 * 1024 * 1024
			}
			if iv.Size > limit {
				r.Violate("oversized-literal-invited", o.Cmd.Name, "%s: command %s: the server answered the announcement of a %d-byte synchronising literal with a continuation request (limit %d)", phase, describeCmd(o.Cmd), iv.Size, limit)
			}
		}
	}
}

// rawPeer is a scripted client that speaks raw bytes and behaves like a correct client where the
// protocol demands it (waits for "+" before a synchronising literal's payload, for SASL
// challenges and for the IDLE acknowledgement).
type rawPeer struct {
	r        *R
	name     string
	conn     net.Conn
	buf      []byte
	lineEnd  int // offset in buf up to which complete lines were parsed
	resps    []Resp
	scanned  int // index in resps up to which wait* calls have looked
	eof      bool
	timedOut bool // the last read ended with the peer's own timeout
	rerr     error
	timeout  time.Duration
	outcomes []*cmdOutcome
	greeting *Resp
}

func newRawPeer(r *R, name string, conn net.Conn) *rawPeer {
	return &rawPeer{r: r, name: name, conn: conn, timeout: 10 * time.Minute}
}

// readMore performs one Read; it returns false when the stream has ended or the peer timed out.
func (p *rawPeer) readMore() bool {
	if p.eof {
		return false
	}
	p.timedOut = false
	p.conn.SetReadDeadline(time.Now().Add(p.timeout))
	var b [2048]byte
	n, err := p.conn.Read(b[:])
	p.buf = append(p.buf, b[:n]...)
	if n > 0 {
		for _, ln := range SplitLines(p.buf[p.lineEnd:], nil) {
			if !ln.Complete {
				break
			}
			ln.Start += p.lineEnd
			ln.End += p.lineEnd
			for i := range ln.Literals {
				ln.Literals[i].HdrStart += p.lineEnd
				ln.Literals[i].Start += p.lineEnd
			}
			p.resps = append(p.resps, ParseResp(ln))
		}
		if len(p.resps) > 0 {
			p.lineEnd = p.resps[len(p.resps)-1].Line.End
		}
	}
	if err != nil {
		if isTimeout(err) {
			p.timedOut = true
		} else {
			p.eof = true
			p.rerr = err
		}
		return n > 0
	}
	return true
}

// next returns the next unscanned response, reading as needed.
func (p *rawPeer) next() (*Resp, bool) {
	for p.scanned >= len(p.resps) {
		if !p.readMore() && p.scanned >= len(p.resps) {
			return nil, false
		}
	}
	rp := &p.resps[p.scanned]
	p.scanned++
	return rp, true
}

func (p *rawPeer) waitGreeting() bool {
	rp, ok := p.next()
	if ok {
		p.greeting = rp
	}
	return ok
}

// findTagged looks for the tagged reply of tag among the responses from index `from` on
// (replies of pipelined commands may already have been read while waiting for something else).
func (p *rawPeer) findTagged(tag string, from int) (*Resp, int, bool) {
	i := from
	for {
		for ; i < len(p.resps); i++ {
			if p.resps[i].Tag == tag {
				return &p.resps[i], i, true
			}
		}
		if !p.readMore() && i >= len(p.resps) {
			return nil, 0, false
		}
	}
}

// waitTaggedOrCont scans forward (from the continuation cursor) until a continuation request or
// the tagged reply for tag.
func (p *rawPeer) waitTaggedOrCont(tag string, wantCont bool) (rp *Resp, isCont bool, ok bool) {
	for {
		for p.scanned < len(p.resps) {
			rp := &p.resps[p.scanned]
			p.scanned++
			if rp.Tag == "+" && wantCont {
				return rp, true, true
			}
			if rp.Tag == tag {
				return rp, false, true
			}
		}
		if !p.readMore() && p.scanned >= len(p.resps) {
			return nil, false, false
		}
	}
}

func (p *rawPeer) write(b []byte) error {
	_, err := p.conn.Write(b)
	return err
}

// send transmits one command, honouring literal synchronisation; it returns false if the
// command ended early (refusal, error, connection loss).
func (p *rawPeer) send(c *rawCmd, o *cmdOutcome) bool {
	var pending []byte
	pending = append(pending, c.Tag...)
	pending = append(pending, ' ')
	lastLit := -1
	for pi, part := range c.Parts {
		if part.IsLit {
			lastLit = pi
		}
	}
	for pi, part := range c.Parts {
		if !part.IsLit {
			pending = append(pending, part.Text...)
			continue
		}
		n := uint64(len(part.Lit))
		if part.Announce > 0 {
			n = part.Announce
		}
		hdr := fmt.Sprintf("{%d}\r\n", n)
		if !part.Sync {
			hdr = fmt.Sprintf("{%d+}\r\n", n)
		}
		if part.Bin {
			hdr = "~" + hdr
		}
		pending = append(pending, hdr...)
		if part.Sync {
			if o.SendErr = p.write(pending); o.SendErr != nil {
				return false
			}
			pending = nil
			t0 := time.Now()
			rp, isCont, ok := p.waitTaggedOrCont(c.Tag, true)
			o.LitWait = time.Since(t0)
			if !ok {
				o.Closed, o.TimedOut = p.eof, !p.eof
				return false
			}
			if !isCont {
				o.Refused, o.Reply, o.ReplyIdx = true, rp, p.scanned-1
				o.Sent = true
				return false
			}
			o.Conts++
			o.Invited = append(o.Invited, litInvite{Size: n, Last: pi == lastLit})
		}
		pending = append(pending, part.Lit...)
	}
	pending = append(pending, "\r\n"...)
	if o.SendErr = p.write(pending); o.SendErr != nil {
		return false
	}
	o.Sent = true
	return true
}

// run executes the script and records one outcome per command.
func (p *rawPeer) run(cmds []rawCmd) {
	var unwaited []*cmdOutcome
	flush := func() {
		for _, o := range unwaited {
			p.awaitReply(o)
		}
		unwaited = nil
	}
	for i := range cmds {
		c := &cmds[i]
		o := &cmdOutcome{Cmd: c, FromIdx: len(p.resps)}
		p.outcomes = append(p.outcomes, o)
		if p.eof && len(unwaited) == 0 {
			o.Closed = true
			continue
		}
		full := p.send(c, o)
		if !full {
			if o.Reply == nil && !o.Closed && !o.TimedOut && o.SendErr == nil {
				o.Closed = true
			}
			p.r.Tracef("%s > %s %s: %s", p.name, c.Tag, c.Name, o.describe())
			continue
		}
		// continuation lines (SASL, IDLE)
		ended := false
		for ci, line := range c.Cont {
			rp, isCont, ok := p.waitTaggedOrCont(c.Tag, true)
			if !ok {
				o.Closed, o.TimedOut = p.eof, !p.eof
				ended = true
				break
			}
			if !isCont {
				o.Reply, o.ReplyIdx = rp, p.scanned-1
				ended = true
				break
			}
			o.Conts++
			if ci == len(c.Cont)-1 && c.StallFor > 0 {
				simrt.Sleep(c.StallFor)
			}
			if ci == len(c.Cont)-1 && c.IdleFor > 0 {
				p.idleRead(c.IdleFor)
			}
			if ci == len(c.Cont)-1 && c.Hangup {
				p.conn.Close()
				p.eof = true
				o.Closed = true
				ended = true
				break
			}
			if o.SendErr = p.write([]byte(line + "\r\n")); o.SendErr != nil {
				ended = true
				break
			}
		}
		if ended {
			p.r.Tracef("%s > %s %s: %s", p.name, c.Tag, c.Name, o.describe())
			continue
		}
		if c.Pause > 0 {
			simrt.Sleep(c.Pause)
		}
		if c.NoWait {
			unwaited = append(unwaited, o)
			continue
		}
		flush()
		p.awaitReply(o)
	}
	flush()
}

// idleRead keeps reading (and recording) for d of simulated time.
func (p *rawPeer) idleRead(d time.Duration) {
	end := time.Now().Add(d)
	saved := p.timeout
	for !p.eof {
		left := time.Until(end)
		if left <= 0 {
			break
		}
		p.timeout = left
		p.readMore()
	}
	p.timedOut = false
	p.timeout = saved
}

func isTimeout(err error) bool {
	type to interface{ Timeout() bool }
	for err != nil {
		if t, ok := err.(to); ok && t.Timeout() {
			return true
		}
		u, ok := err.(interface{ Unwrap() error })
		if !ok {
			return false
		}
		err = u.Unwrap()
	}
	return false
}

func (p *rawPeer) awaitReply(o *cmdOutcome) {
	if o.Reply != nil || o.Closed || o.TimedOut {
		return
	}
	rp, idx, ok := p.findTagged(o.Cmd.Tag, o.FromIdx)
	if !ok {
		o.Closed, o.TimedOut = p.eof, !p.eof
	} else {
		o.Reply, o.ReplyIdx = rp, idx
	}
	p.r.Tracef("%s > %s %s: %s", p.name, o.Cmd.Tag, o.Cmd.Name, o.describe())
}

func (o *cmdOutcome) describe() string {
	switch {
	case o.Reply != nil:
		s := fmt.Sprintf("%s %s", o.Reply.Name, clipStr(o.Reply.Text, 60))
		if o.Reply.Code != "" {
			s = fmt.Sprintf("%s [%s] %s", o.Reply.Name, o.Reply.Code, clipStr(o.Reply.Text, 60))
		}
		if o.Refused {
			s += " (literal refused)"
		}
		return s
	case o.SendErr != nil:
		return "send error: " + o.SendErr.Error()
	case o.TimedOut:
		return "NO REPLY (peer gave up after its timeout)"
	case o.Closed:
		return "connection closed before the reply"
	}
	return "?"
}

// drain reads until the server closes the connection or the peer's timeout expires.
func (p *rawPeer) drain() {
	for p.readMore() {
	}
	for !p.eof && !p.timedOut {
		p.readMore()
	}
}

// describeCmd renders a command for traces.
func describeCmd(c *rawCmd) string {
	var sb strings.Builder
	sb.WriteString(c.Tag + " ")
	for _, part := range c.Parts {
		if part.IsLit {
			n := uint64(len(part.Lit))
			if part.Announce > 0 {
				n = part.Announce
			}
			mark := "+"
			if part.Sync {
				mark = ""
			}
			fmt.Fprintf(&sb, "{%d%s}<%q>", n, mark, clipStr(string(part.Lit), 50))
		} else {
			sb.WriteString(part.Text)
		}
	}
	for _, l := range c.Cont {
		sb.WriteString(" ⏎" + l)
	}
	return sb.String()
}
