package harness

import (
	"bytes"
	"fmt"
	"github.com/emersion/go-sasl"
	"strings"
	"time"

	"github.com/emersion/go-imap/v2"
	"github.com/emersion/go-imap/v2/imapserver"
	"github.com/emersion/go-imap/v2/imapserver/imapmemserver"
	"verif.local/simrt"
	"verif.local/simrt/simnet"
)

// logBuf is the server Logger: it records every line (panic reports are found here). It is
// written by library goroutines, so it stores into a preallocated array from //go:norace code
// (no append, no map): the logger must neither race nor synchronise the goroutines that use it.
type logBuf struct {
	buf   [256]string
	n     int
	lines []string // filled by finish() after the run
}

//go:norace
func (l *logBuf) Printf(format string, args ...interface{}) {
	s := fmt.Sprintf(format, args...)
	if l.n < len(l.buf) {
		l.buf[l.n] = s
		l.n++
	}
}

func (l *logBuf) all() []string {
	return l.buf[:l.n]
}

func (l *logBuf) panics() []string {
	var out []string
	for _, s := range l.all() {
		if strings.Contains(s, "panic") {
			out = append(out, s)
		}
	}
	return out
}

type bytesLiteral struct {
	*bytes.Reader
	n int64
}

func (b bytesLiteral) Size() int64 { return b.n }

func newLiteral(b []byte) imap.LiteralReader {
	return bytesLiteral{bytes.NewReader(b), int64(len(b))}
}

var sampleMessages = []string{
	"From: Alice <alice@example.org>\r\nTo: Bob <bob@example.org>\r\nSubject: Hello\r\nDate: Wed, 11 May 2016 14:31:59 +0000\r\nMessage-ID: <m1@example.org>\r\nContent-Type: text/plain\r\n\r\nHi Bob,\r\nhow are you?\r\n",
	"From: Carol <carol@example.org>\r\nTo: Alice <alice@example.org>\r\nCc: dave@example.org\r\nSubject: Multipart\r\nDate: Thu, 12 May 2016 10:00:00 +0200\r\nMessage-ID: <m2@example.org>\r\nMIME-Version: 1.0\r\nContent-Type: multipart/mixed; boundary=XX\r\n\r\n--XX\r\nContent-Type: text/plain\r\n\r\npart one\r\n--XX\r\nContent-Type: text/html\r\nContent-Disposition: attachment; filename=a.html\r\n\r\n<p>two</p>\r\n--XX--\r\n",
	"From: dave@example.org\r\nSubject: =?UTF-8?B?w6l0w6k=?=\r\nDate: Fri, 13 May 2016 08:00:00 -0700\r\n\r\nshort\r\n",
	"Subject: tiny\r\n\r\nx",
}

// memEnv is a real imapserver.Server backed by a real imapmemserver, listening on the simulated network.
type memEnv struct {
	r    *R
	mem  *imapmemserver.Server
	user *imapmemserver.User
	srv  *imapserver.Server
	ln   *simnet.Listener
	log  *logBuf
}

type memOpts struct {
	caps         imap.CapSet
	mailboxes    map[string]int // name -> number of pre-populated messages
	insecureAuth bool
}

func defaultCaps(variant int) imap.CapSet {
	switch variant % 4 {
	case 0:
		return imap.CapSet{imap.CapIMAP4rev1: {}, imap.CapIMAP4rev2: {}}
	case 1:
		return imap.CapSet{imap.CapIMAP4rev1: {}}
	case 2:
		return imap.CapSet{imap.CapIMAP4rev1: {}, imap.CapLiteralPlus: {}, imap.CapIdle: {}, imap.CapMove: {}, imap.CapUIDPlus: {}, imap.CapESearch: {}, imap.CapNamespace: {}, imap.CapEnable: {}, imap.CapUnselect: {}}
	default:
		return imap.CapSet{imap.CapIMAP4rev2: {}}
	}
}

// newMemEnv must be called from a task inside the bubble.
func newMemEnv(r *R, o memOpts) *memEnv {
	e := &memEnv{r: r, log: &logBuf{}}
	e.mem = imapmemserver.New()
	e.user = imapmemserver.NewUser("user", "pass")
	names := make([]string, 0, len(o.mailboxes))
	for n := range o.mailboxes {
		names = append(names, n)
	}
	sortStrings(names)
	for _, n := range names {
		e.user.Create(n, nil)
		for i := 0; i < o.mailboxes[n]; i++ {
			m := sampleMessages[i%len(sampleMessages)]
			e.user.Append(n, newLiteral([]byte(m)), &imap.AppendOptions{Time: time.Date(2020, 1, 1+i, 12, 0, 0, 0, time.UTC)})
		}
	}
	e.mem.AddUser(e.user)
	e.srv = imapserver.New(&imapserver.Options{
		NewSession: func(*imapserver.Conn) (imapserver.Session, *imapserver.GreetingData, error) {
			return &memSASLSession{user: e.user}, nil, nil
		},
		Caps:         o.caps,
		InsecureAuth: o.insecureAuth,
		Logger:       e.log,
	})
	e.ln = r.Net.Listen()
	simrt.GoNamed("server.Serve", func() { e.srv.Serve(e.ln) })
	return e
}

// Connect creates a connection; the server end is handed to the listener, the client end is returned.
func (e *memEnv) Connect(name string) *simnet.Conn {
	c, s := e.r.Net.Pair(name, "srv-"+name)
	e.ln.Push(s)
	return c
}

func (e *memEnv) Shutdown() {
	e.srv.Close()
}

func sortStrings(s []string) {
	for i := 1; i < len(s); i++ {
		for j := i; j > 0 && s[j] < s[j-1]; j-- {
			s[j], s[j-1] = s[j-1], s[j]
		}
	}
}

// waitOrTimeout waits for done or for d of simulated time; it reports whether done fired.
func waitOrTimeout(done <-chan struct{}, d time.Duration) bool {
	tm := time.NewTimer(d)
	defer tm.Stop()
	i, _, _ := simrt.Select(false, simrt.RecvCase(done), simrt.RecvCase(tm.C))
	return i == 0
}

// stubEnv is a real imapserver.Server whose sessions are harness stubs.
type stubEnv struct {
	r   *R
	b   *stubBackend
	srv *imapserver.Server
	ln  *simnet.Listener
	log *logBuf
}

func newStubEnv(r *R, b *stubBackend, opts *imapserver.Options) *stubEnv {
	e := &stubEnv{r: r, b: b, log: &logBuf{}}
	o := *opts
	o.NewSession = b.NewSession
	o.Logger = e.log
	e.srv = imapserver.New(&o)
	e.ln = r.Net.Listen()
	simrt.GoNamed("server.Serve", func() { e.srv.Serve(e.ln) })
	return e
}

func (e *stubEnv) Connect(name string) (cli, srv *simnet.Conn) {
	c, s := e.r.Net.Pair(name, "srv-"+name)
	e.ln.Push(s)
	return c, s
}

// serverCaps returns the capability set variants used by the raw-peer checks.
func serverCaps(variant int) imap.CapSet {
	switch variant % 5 {
	case 4:
		return imap.CapSet{imap.CapIMAP4rev1: {}, imap.CapUIDPlus: {}}
	case 0:
		return imap.CapSet{imap.CapIMAP4rev1: {}}
	case 1:
		return imap.CapSet{imap.CapIMAP4rev1: {}, imap.CapIMAP4rev2: {}}
	case 2:
		return imap.CapSet{imap.CapIMAP4rev2: {}}
	default:
		return imap.CapSet{imap.CapIMAP4rev1: {}, imap.CapLiteralPlus: {}, imap.CapMove: {}, imap.CapNamespace: {}, imap.CapUnauthenticate: {}}
	}
}

// memSASLSession is imapmemserver's server session (a UserSession that appears on login) plus the
// multi-step SASL mechanism LOGIN, so that AUTHENTICATE exchanges with non-empty challenges run
// against the real backend too.
type memSASLSession struct {
	*imapmemserver.UserSession // nil until login
	user                       *imapmemserver.User
}

var _ imapserver.SessionSASL = (*memSASLSession)(nil)
var _ imapserver.SessionIMAP4rev2 = (*memSASLSession)(nil)

func (s *memSASLSession) Login(username, password string) error {
	if username != "user" {
		return imapserver.ErrAuthFailed
	}
	if err := s.user.Login(username, password); err != nil {
		return err
	}
	s.UserSession = imapmemserver.NewUserSession(s.user)
	return nil
}

func (s *memSASLSession) Close() error { return s.UserSession.Close() }

func (s *memSASLSession) AuthenticateMechanisms() []string { return []string{"PLAIN", "LOGIN"} }

func (s *memSASLSession) Authenticate(mech string) (sasl.Server, error) {
	switch mech {
	case "PLAIN":
		return sasl.NewPlainServer(func(identity, username, password string) error {
			if identity != "" && identity != username {
				return imapserver.ErrAuthFailed
			}
			return s.Login(username, password)
		}), nil
	case "LOGIN":
		return sasl.NewLoginServer(func(username, password string) error { return s.Login(username, password) }), nil
	}
	return nil, &imap.Error{Type: imap.StatusResponseTypeNo, Text: "unsupported mechanism"}
}
