package harness

import (
	"fmt"
	"io"
	"strings"
	"time"

	"github.com/emersion/go-imap/v2"
	"github.com/emersion/go-imap/v2/imapclient"
	"github.com/emersion/go-sasl"
	"verif.local/simrt"
)

// cop is one client API operation of a generated scenario.
type cop struct {
	Kind  int
	A, B  int
	Mode  int  // consumption mode for streaming commands
	Async bool // issue now, wait later (pipelining)
}

const (
	opNoop = iota
	opSelect
	opFetch
	opStore
	opSearch
	opList
	opStatus
	opAppend
	opCopy
	opMove
	opExpunge
	opUIDExpunge
	opMailboxAdmin
	opIdle
	opCaps
	opEnable
	opNamespace
	opUnselect
	opDrain
	opLogout
	opLogin
	opAuthPlain
	nOps
)

var opNames = [...]string{"NOOP", "SELECT", "FETCH", "STORE", "SEARCH", "LIST", "STATUS", "APPEND", "COPY", "MOVE", "EXPUNGE", "UID EXPUNGE", "ADMIN", "IDLE", "CAPABILITY", "ENABLE", "NAMESPACE", "UNSELECT", "drain", "LOGOUT", "LOGIN", "AUTHENTICATE"}

var mboxNames = []string{"INBOX", "Archive", "Trash", "Nope"}

func (o cop) String() string {
	return fmt.Sprintf("%s(a=%d b=%d mode=%d async=%v)", opNames[o.Kind], o.A, o.B, o.Mode, o.Async)
}

// genScenario draws a scenario: login, then up to n operations.
func genScenario(t *simrt.Tape, n int) []cop {
	var ops []cop
	if t.Choose(4) == 3 {
		ops = append(ops, cop{Kind: opAuthPlain, A: t.Choose(2)})
	} else {
		ops = append(ops, cop{Kind: opLogin})
	}
	k := 1 + t.Choose(n)
	selected := false
	for i := 0; i < k; i++ {
		var kind int
		if !selected && t.Choose(3) != 0 {
			kind = opSelect
		} else {
			// weights: streaming and literal commands are the interesting ones
			kind = []int{opFetch, opFetch, opNoop, opStore, opSearch, opList, opStatus, opAppend, opAppend, opCopy, opMove, opExpunge, opUIDExpunge, opMailboxAdmin, opIdle, opCaps, opEnable, opNamespace, opUnselect, opSelect, opDrain, opFetch, opList}[t.Choose(23)]
		}
		o := cop{Kind: kind, A: t.Choose(8), B: t.Choose(8), Mode: t.Choose(5)}
		switch kind {
		case opSelect:
			selected = true
		case opUnselect:
			selected = false
		case opNoop, opFetch, opStore, opSearch, opStatus, opCopy, opList, opExpunge, opNamespace:
			o.Async = t.Choose(3) == 2
		}
		ops = append(ops, o)
	}
	if t.Choose(3) != 0 {
		ops = append(ops, cop{Kind: opLogout})
	}
	return ops
}

// cmdRec records the outcome of one issued command.
type cmdRec struct {
	Op       cop
	Name     string // wire command name (upper case), "" if no tagged command is expected
	Returned bool
	Children int // IDLE: number of IDLE commands the automatic restart may have issued
	Err      error
	Detail   string
}

// clientRunner executes cops against a client, honouring the documented caller contract
// (streaming commands are consumed or closed).
type clientRunner struct {
	r            *R
	c            *imapclient.Client
	recs         []*cmdRec
	pending      []func()
	pendingFetch bool
	tag          string
	// uidLane > 0: FETCH and STORE address only this UID, by UID (concurrent callers then never
	// issue commands whose untagged data is ambiguous, RFC 9051 section 5.5)
	uidLane int
}

func (cr *clientRunner) rec(o cop, name string) *cmdRec {
	rec := &cmdRec{Op: o, Name: name}
	cr.recs = append(cr.recs, rec)
	return rec
}

func (cr *clientRunner) finish(rec *cmdRec, err error, detail string) {
	rec.Returned, rec.Err, rec.Detail = true, err, detail
	cr.r.Tracef("%s %s -> err=%v %s", cr.tag, rec.Op, err, detail)
}

func seqSetFor(a int) imap.SeqSet {
	switch a % 6 {
	case 0:
		return imap.SeqSetNum(1)
	case 1:
		var s imap.SeqSet
		s.AddRange(1, 0) // 1:*
		return s
	case 2:
		return imap.SeqSetNum(1, 2)
	case 3:
		var s imap.SeqSet
		s.AddRange(2, 3)
		return s
	case 4:
		return imap.SeqSetNum(9) // usually out of range
	default:
		var s imap.SeqSet
		s.AddRange(0, 0) // *
		return s
	}
}

func uidSetFor(a int) imap.UIDSet {
	switch a % 4 {
	case 0:
		return imap.UIDSetNum(1)
	case 1:
		var s imap.UIDSet
		s.AddRange(1, 0)
		return s
	case 2:
		return imap.UIDSetNum(2, 3)
	default:
		return imap.UIDSetNum(77)
	}
}

func fetchOptionsFor(b int) *imap.FetchOptions {
	switch b % 8 {
	case 0:
		return &imap.FetchOptions{Flags: true, UID: true}
	case 1:
		return &imap.FetchOptions{Envelope: true, InternalDate: true, RFC822Size: true}
	case 2:
		return &imap.FetchOptions{BodySection: []*imap.FetchItemBodySection{{}}}
	case 3:
		return &imap.FetchOptions{BodyStructure: &imap.FetchItemBodyStructure{Extended: true}, BodySection: []*imap.FetchItemBodySection{{Specifier: imap.PartSpecifierHeader, Peek: true}, {Specifier: imap.PartSpecifierText}}}
	case 4:
		return &imap.FetchOptions{UID: true, BodySection: []*imap.FetchItemBodySection{{Part: []int{1}}, {Partial: &imap.SectionPartial{Offset: 2, Size: 10}, Peek: true}}}
	case 5:
		return &imap.FetchOptions{BodyStructure: &imap.FetchItemBodyStructure{}, Flags: true}
	case 6:
		return &imap.FetchOptions{BinarySection: []*imap.FetchItemBinarySection{{Part: []int{1}, Peek: true}}, BinarySectionSize: []*imap.FetchItemBinarySectionSize{{Part: []int{1}}}}
	default:
		return &imap.FetchOptions{Flags: true, BodySection: []*imap.FetchItemBodySection{{Specifier: imap.PartSpecifierHeader, HeaderFields: []string{"Subject", "From"}, Peek: true}}}
	}
}

// consumeFetch consumes a FETCH/STORE command in one of several contract-honouring ways.
func consumeFetch(cmd *imapclient.FetchCommand, mode int) (int, error) {
	switch mode % 5 {
	case 0:
		msgs, err := cmd.Collect()
		return len(msgs), err
	case 1: // manual iteration, literals read in small chunks
		n := 0
		for {
			msg := cmd.Next()
			if msg == nil {
				break
			}
			n++
			for {
				item := msg.Next()
				if item == nil {
					break
				}
				var lit imap.LiteralReader
				switch it := item.(type) {
				case imapclient.FetchItemDataBodySection:
					lit = it.Literal
				case imapclient.FetchItemDataBinarySection:
					lit = it.Literal
				}
				if lit != nil {
					buf := make([]byte, 7)
					for {
						_, err := lit.Read(buf)
						if err != nil {
							break
						}
					}
				}
			}
		}
		return n, cmd.Close()
	case 2: // read a prefix of the first literal, then close
		if msg := cmd.Next(); msg != nil {
			if item := msg.Next(); item != nil {
				if it, ok := item.(imapclient.FetchItemDataBodySection); ok && it.Literal != nil {
					buf := make([]byte, 3)
					it.Literal.Read(buf)
				}
			}
		}
		return 0, cmd.Close()
	case 3: // close immediately
		return 0, cmd.Close()
	default: // first message only, then close
		if msg := cmd.Next(); msg != nil {
			msg.Collect()
		}
		return 0, cmd.Close()
	}
}

func appendPayload(a int) []byte {
	sizes := []int{0, 12, 300, 4096, 4097, 6000, 40, 1}
	n := sizes[a%len(sizes)]
	hdr := "Subject: appended\r\n\r\n"
	var b []byte
	if n >= len(hdr) {
		b = append(b, hdr...)
	}
	for len(b) < n {
		b = append(b, "abcdefghij\r\n"[len(b)%12])
	}
	return b[:n]
}

// listPatternMatches: RFC 9051 6.3.9 wildcards with "/" as the hierarchy delimiter; INBOX is case-insensitive.
func listPatternMatches(pattern, name string) bool {
	if strings.EqualFold(pattern, "INBOX") {
		return strings.EqualFold(name, "INBOX")
	}
	var m func(p, n string) bool
	m = func(p, n string) bool {
		if p == "" {
			return n == ""
		}
		switch p[0] {
		case '*':
			for i := 0; i <= len(n); i++ {
				if m(p[1:], n[i:]) {
					return true
				}
			}
			return false
		case '%':
			for i := 0; i <= len(n); i++ {
				if m(p[1:], n[i:]) {
					return true
				}
				if i < len(n) && n[i] == '/' {
					break
				}
			}
			return false
		}
		return n != "" && n[0] == p[0] && m(p[1:], n[1:])
	}
	return m(pattern, name)
}

func searchCriteriaFor(a int) *imap.SearchCriteria {
	switch a % 5 {
	case 0:
		return &imap.SearchCriteria{}
	case 1:
		return &imap.SearchCriteria{Flag: []imap.Flag{imap.FlagSeen}}
	case 2:
		return &imap.SearchCriteria{Header: []imap.SearchCriteriaHeaderField{{Key: "Subject", Value: "Hello"}}}
	case 3:
		return &imap.SearchCriteria{Body: []string{"part"}, Larger: 10}
	default:
		return &imap.SearchCriteria{Not: []imap.SearchCriteria{{Flag: []imap.Flag{imap.FlagDeleted}}}}
	}
}

// issue starts op; it returns a waiter to call later when op.Async, else it waits itself.
func (cr *clientRunner) issue(o cop) {
	c := cr.c
	later := func(name string, wait func() (error, string)) {
		rec := cr.rec(o, name)
		w := func() {
			err, d := wait()
			cr.finish(rec, err, d)
		}
		if o.Async {
			cr.pending = append(cr.pending, w)
			if o.Kind == opFetch || o.Kind == opStore {
				cr.pendingFetch = true
			}
		} else {
			// the command is already on the wire (pipelined behind the pending ones); a
			// single-threaded caller must consume earlier streaming commands before waiting on it
			cr.drain()
			w()
		}
	}
	switch o.Kind {
	case opLogin:
		cmd := c.Login("user", "pass")
		later("LOGIN", func() (error, string) { return cmd.Wait(), "" })
	case opAuthPlain:
		rec := cr.rec(o, "AUTHENTICATE")
		mech := sasl.NewPlainClient("", "user", "pass")
		if o.A%2 == 1 {
			mech = sasl.NewLoginClient("user", "pass") // two challenges, each non-empty
		}
		err := c.Authenticate(mech)
		cr.finish(rec, err, "")
	case opNoop:
		cmd := c.Noop()
		later("NOOP", func() (error, string) {
			e1 := cmd.Wait()
			if e2 := cmd.Wait(); (e1 == nil) != (e2 == nil) {
				cr.r.Violate("wait-not-idempotent", "NOOP", "first Wait returned %v, second Wait returned %v", e1, e2)
			}
			return e1, ""
		})
	case opSelect:
		readOnly := o.B%4 == 3 // (the all-zero choice selects read-write: a read-only mailbox refuses STORE / EXPUNGE / MOVE)
		cmd := c.Select(mboxNames[o.A%len(mboxNames)], &imap.SelectOptions{ReadOnly: readOnly})
		name := "SELECT"
		if readOnly {
			name = "EXAMINE"
		}
		later(name, func() (error, string) {
			d, err := cmd.Wait()
			if err == nil {
				return nil, fmt.Sprintf("n=%d", d.NumMessages)
			}
			return err, ""
		})
	case opFetch:
		var cmd *imapclient.FetchCommand
		name := "FETCH"
		if cr.uidLane > 0 {
			cmd = c.Fetch(imap.UIDSetNum(imap.UID(cr.uidLane)), fetchOptionsFor(o.B))
			name = "UID FETCH"
		} else if o.A >= 6 {
			cmd = c.Fetch(uidSetFor(o.A), fetchOptionsFor(o.B))
			name = "UID FETCH"
		} else {
			cmd = c.Fetch(seqSetFor(o.A), fetchOptionsFor(o.B))
		}
		later(name, func() (error, string) {
			n, err := consumeFetch(cmd, o.Mode)
			return err, fmt.Sprintf("msgs=%d", n)
		})
	case opStore:
		flags := &imap.StoreFlags{Op: []imap.StoreFlagsOp{imap.StoreFlagsAdd, imap.StoreFlagsDel, imap.StoreFlagsSet}[o.B%3], Silent: o.B >= 6, Flags: []imap.Flag{[]imap.Flag{imap.FlagSeen, imap.FlagDeleted, imap.FlagFlagged, "custom"}[o.B%4]}}
		var cmd *imapclient.FetchCommand
		name := "STORE"
		if cr.uidLane > 0 {
			cmd, name = c.Store(imap.UIDSetNum(imap.UID(cr.uidLane)), flags, nil), "UID STORE"
		} else {
			cmd = c.Store(seqSetFor(o.A), flags, nil)
		}
		later(name, func() (error, string) {
			n, err := consumeFetch(cmd, o.Mode)
			return err, fmt.Sprintf("msgs=%d", n)
		})
	case opSearch:
		var cmd *imapclient.SearchCommand
		name := "SEARCH"
		var opts *imap.SearchOptions
		if o.B%3 == 1 {
			opts = &imap.SearchOptions{ReturnMin: true, ReturnMax: true, ReturnCount: true, ReturnAll: true}
		}
		lane := imap.UID(0)
		if o.B >= 4 {
			crit := searchCriteriaFor(o.A)
			if cr.uidLane > 0 && o.A%2 == 0 {
				// a search only this caller issues: the answer can only name this caller's own UID
				lane = imap.UID(cr.uidLane)
				crit = &imap.SearchCriteria{UID: []imap.UIDSet{imap.UIDSetNum(lane)}}
			}
			cmd = c.UIDSearch(crit, opts)
			name = "UID SEARCH"
		} else {
			cmd = c.Search(searchCriteriaFor(o.A), opts)
		}
		later(name, func() (error, string) {
			d, err := cmd.Wait()
			if err == nil && d != nil {
				if lane != 0 {
					for _, u := range d.AllUIDs() {
						if u != lane {
							cr.r.Violate("misrouted-data", "UID SEARCH", "%s searched for UID %d only; the result delivered to it names UID %d (all: %v)", cr.tag, lane, u, d.AllUIDs())
							break
						}
					}
				}
				return nil, fmt.Sprintf("count=%d", d.Count)
			}
			return err, ""
		})
	case opList:
		var opts *imap.ListOptions
		switch o.B % 4 {
		case 1:
			opts = &imap.ListOptions{ReturnStatus: &imap.StatusOptions{NumMessages: true, NumUnseen: true}}
		case 2:
			opts = &imap.ListOptions{SelectSubscribed: true, ReturnSubscribed: true, ReturnChildren: true}
		}
		pattern := []string{"*", "%", "INBOX", "A*", "", "T%", "Ar*e"}[o.A%7]
		cmd := c.List("", pattern, opts)
		// whatever else goes on, a mailbox delivered to this LIST matches the pattern this LIST asked for
		checkName := func(d *imap.ListData) {
			if d != nil && !listPatternMatches(pattern, d.Mailbox) {
				cr.r.Violate("misrouted-data", "LIST", "%s listed pattern %q; the data delivered to it names mailbox %q", cr.tag, pattern, d.Mailbox)
			}
		}
		later("LIST", func() (error, string) {
			switch o.Mode % 3 {
			case 0:
				l, err := cmd.Collect()
				for _, d := range l {
					checkName(d)
				}
				return err, fmt.Sprintf("mailboxes=%d", len(l))
			case 1:
				n := 0
				for d := cmd.Next(); d != nil; d = cmd.Next() {
					checkName(d)
					n++
				}
				return cmd.Close(), fmt.Sprintf("mailboxes=%d", n)
			default:
				return cmd.Close(), ""
			}
		})
	case opStatus:
		cmd := c.Status(mboxNames[o.A%len(mboxNames)], &imap.StatusOptions{NumMessages: true, UIDNext: true, UIDValidity: o.B%2 == 0, NumUnseen: true})
		later("STATUS", func() (error, string) { _, err := cmd.Wait(); return err, "" })
	case opAppend:
		payload := appendPayload(o.A)
		var opts *imap.AppendOptions
		if o.B%3 == 1 {
			opts = &imap.AppendOptions{Flags: []imap.Flag{imap.FlagSeen, "custom"}, Time: time.Date(2021, 3, 4, 5, 6, 7, 0, time.FixedZone("", 3600))}
		}
		rec := cr.rec(o, "APPEND")
		cmd := c.Append(mboxNames[o.B%3], int64(len(payload)), opts)
		var werr error
		switch o.Mode % 3 {
		case 0:
			_, werr = cmd.Write(payload)
		default:
			for off := 0; off < len(payload) && werr == nil; off += 100 {
				end := off + 100
				if end > len(payload) {
					end = len(payload)
				}
				_, werr = cmd.Write(payload[off:end])
			}
		}
		cerr := cmd.Close()
		_, err := cmd.Wait()
		cr.finish(rec, err, fmt.Sprintf("size=%d werr=%v cerr=%v", len(payload), werr, cerr))
	case opCopy:
		cmd := c.Copy(seqSetFor(o.A), mboxNames[o.B%len(mboxNames)])
		later("COPY", func() (error, string) { _, err := cmd.Wait(); return err, "" })
	case opMove:
		cmd := c.Move(seqSetFor(o.A), mboxNames[o.B%len(mboxNames)])
		rec := cr.rec(o, "") // MOVE or its COPY+STORE+EXPUNGE fallback, depending on capabilities: not matched on the wire
		_, err := cmd.Wait()
		cr.finish(rec, err, "")
	case opExpunge:
		cmd := c.Expunge()
		later("EXPUNGE", func() (error, string) {
			if o.Mode%2 == 0 {
				l, err := cmd.Collect()
				return err, fmt.Sprintf("expunged=%v", l)
			}
			return cmd.Close(), ""
		})
	case opUIDExpunge:
		cmd := c.UIDExpunge(uidSetFor(o.A))
		rec := cr.rec(o, "UID EXPUNGE")
		l, err := cmd.Collect()
		cr.finish(rec, err, fmt.Sprintf("expunged=%v", l))
	case opMailboxAdmin:
		name := []string{"New", "Archive", "Other/Sub", "Trash"}[o.A%4]
		var cmd *imapclient.Command
		var wire string
		switch o.B % 5 {
		case 0:
			cmd, wire = c.Create(name, nil), "CREATE"
		case 1:
			cmd, wire = c.Delete(name), "DELETE"
		case 2:
			cmd, wire = c.Rename(name, name+"2"), "RENAME"
		case 3:
			cmd, wire = c.Subscribe(name), "SUBSCRIBE"
		default:
			cmd, wire = c.Unsubscribe(name), "UNSUBSCRIBE"
		}
		rec := cr.rec(o, wire)
		cr.finish(rec, cmd.Wait(), name)
	case opIdle:
		rec := cr.rec(o, "IDLE")
		idle, err := c.Idle()
		if err != nil {
			cr.finish(rec, err, "idle start failed")
			return
		}
		d := []time.Duration{0, time.Second, time.Minute, 20 * time.Minute, 30 * time.Minute, 65 * time.Minute, 5 * time.Second, 29 * time.Minute}[o.A%8]
		if d > 0 {
			simrt.Sleep(d)
		}
		rec.Children = 1 + int(d/(28*time.Minute))
		cerr := idle.Close()
		werr := idle.Wait()
		if cerr != nil && werr == nil {
			werr = cerr
		}
		cr.finish(rec, werr, fmt.Sprintf("idle %v close=%v", d, cerr))
	case opCaps:
		if o.A%2 == 0 {
			rec := cr.rec(o, "")
			caps := c.Caps()
			cr.finish(rec, nil, fmt.Sprintf("caps=%d", len(caps)))
		} else {
			cmd := c.Capability()
			rec := cr.rec(o, "") // explicit CAPABILITY is indistinguishable from the client's own on the wire
			_, err := cmd.Wait()
			cr.finish(rec, err, "")
		}
	case opEnable:
		cmd := c.Enable(imap.CapIMAP4rev2, imap.CapUTF8Accept)
		rec := cr.rec(o, "ENABLE")
		_, err := cmd.Wait()
		cr.finish(rec, err, "")
	case opNamespace:
		cmd := c.Namespace()
		later("NAMESPACE", func() (error, string) { _, err := cmd.Wait(); return err, "" })
	case opUnselect:
		var cmd *imapclient.Command
		wire := "UNSELECT"
		if o.A%2 == 0 {
			cmd = c.Unselect()
		} else {
			cmd, wire = c.UnselectAndExpunge(), "CLOSE"
		}
		rec := cr.rec(o, wire)
		cr.finish(rec, cmd.Wait(), "")
	case opDrain:
		cr.drain()
	case opLogout:
		cr.drain()
		cmd := c.Logout()
		rec := cr.rec(o, "LOGOUT")
		cr.finish(rec, cmd.Wait(), "")
	}
}

// drain waits for every pipelined command, in issue order (streaming commands must be consumed
// in order, otherwise the caller itself violates the documented contract).
func (cr *clientRunner) drain() {
	p := cr.pending
	cr.pending = nil
	cr.pendingFetch = false
	for _, w := range p {
		w()
	}
}

func (cr *clientRunner) run(ops []cop) {
	for _, o := range ops {
		switch o.Kind {
		case opIdle, opAppend, opMove, opUIDExpunge, opMailboxAdmin, opCaps, opEnable, opUnselect, opSelect, opAuthPlain, opLogin:
			// commands that change state or block the client: do not pipeline behind pending streaming commands
			cr.drain()
		case opFetch, opStore:
			// two pipelined FETCH/STORE commands on overlapping messages are ambiguous for the client
			// (it attributes FETCH data by set membership, e.g. "*" vs "1:*"): RFC 9051 5.5 caveat
			if cr.pendingFetch {
				cr.drain()
			}
		}
		cr.issue(o)
	}
	cr.drain()
}

// isIMAPStatusErr reports whether err is a tagged NO/BAD (a protocol-level failure, not a connection failure).
func isIMAPStatusErr(err error) bool {
	_, ok := err.(*imap.Error)
	return ok
}

var _ = io.EOF
var _ = strings.ToUpper
