package harness

import (
	"fmt"
	"strings"
	"time"

	"github.com/emersion/go-imap/v2/imapserver"
	"verif.local/simrt"
)

// C04 — server command framing: literal payloads are never parsed as commands.

func init() {
	register(&Prop{
		ID:    "C04",
		Level: "exploration",
		Rule: "case = (server capability set, sequence of <=12 raw commands whose string arguments are rendered as atom / quoted / synchronising literal / non-synchronising literal with announced sizes 0, small, 4096, 4097, 5000 and over the APPEND limit up to 2^64-1, payloads containing CRLF and command-like text with unique poison markers; commands that fail before their literal is reached; APPEND with trailing garbage; IDLE with asynchronous updates; AUTHENTICATE exchanges; IDLE / SASL continuation lines longer than the server's line buffer with command-like tails; FETCH partials up to 2^64), network segmentation and schedule. " +
			"Non-trivial: at least one command was completely sent. Distinct: distinct event-log hashes.",
		Components:   "real: imapserver.Conn/Server, internal/imapwire (woven); stub: recording Session (accepts everything), scripted raw peer that obeys literal synchronisation, network, clock, scheduler",
		Assumptions:  []string{"the peer never sends input whose framing is ambiguous under RFC 9051/7888 (those inputs are exercised for robustness in C06 only)", "both RFC-permitted reactions to an over-long non-synchronising literal (consume then reject; reject and close) are accepted"},
		QuickRuns:    8000,
		ThoroughRuns: 250000,
		Run:          runC04,
	})
}

type c04gen struct {
	t      *simrt.Tape
	poison []string
	ntag   int
	cmds   []rawCmd
}

func (g *c04gen) tag() string {
	g.ntag++
	return fmt.Sprintf("a%d", g.ntag)
}

var atomSafe = "abcXYZ019._-"

// payload builds a literal payload of about size n that contains CRLF and command-like text
// carrying a poison marker which exists nowhere else in the run.
func (g *c04gen) payload(n int) []byte {
	k := len(g.poison)
	marker := fmt.Sprintf("POISON%d", k)
	g.poison = append(g.poison, marker, fmt.Sprintf("PZN%d", k))
	// three shapes: the command-like text follows a line break inside the payload, starts the payload (what a
	// server that wrongly invited the payload would read as its next command), or follows an empty line
	core := fmt.Sprintf("x\r\nPZN%d DELETE %s\r\nPZN%d NOOP\r\n", k, marker, k)
	switch g.t.Choose(3) {
	case 1:
		core = fmt.Sprintf("PZN%d NOOP\r\nPZN%d DELETE %s\r\n", k, k, marker)
	case 2:
		core = fmt.Sprintf("\r\nPZN%d NOOP\r\nPZN%d CREATE %s\r\n", k, k, marker)
	}
	if n == 0 {
		return nil
	}
	var b []byte
	for len(b) < n {
		b = append(b, core...)
	}
	return b[:n]
}

// longLine is one line (no line break inside) longer than the server's 4096-byte line buffer whose tail looks like a
// command with a poison tag: whatever the server does with the line, the tail is not a command.
func (g *c04gen) longLine() string {
	k := len(g.poison)
	marker := fmt.Sprintf("POISON%d", k)
	g.poison = append(g.poison, marker, fmt.Sprintf("PZN%d", k))
	pad := []int{4096, 4096, 4095, 4097, 8192, 5000}[g.t.Choose(6)]
	fill := []string{"A", "QUJD", "DONE "}[g.t.Choose(3)]
	return strings.Repeat(fill, pad/len(fill)+1)[:pad] + fmt.Sprintf("PZN%d CREATE %s", k, marker)
}

// str renders a string argument in one of the four wire forms.
func (g *c04gen) str(plain string) []rawPart {
	sizes := []int{3, 40, 0, 4096, 4097, 5000, 200, 1}
	switch g.t.Choose(6) {
	case 0, 1:
		return []rawPart{{Text: `"` + plain + `"`}}
	case 2:
		return []rawPart{{Text: plain}}
	case 3:
		if g.t.Choose(10) == 9 {
			// (a conforming peer waits for the answer, which must be a refusal; no payload exists)
			return []rawPart{{IsLit: true, Announce: g.hugeSize(), Sync: true}}
		}
		return []rawPart{{IsLit: true, Lit: g.payload(sizes[g.t.Choose(len(sizes))]), Sync: true}}
	case 4:
		return []rawPart{{IsLit: true, Lit: g.payload(sizes[g.t.Choose(len(sizes))])}}
	default:
		// literal carrying the plain value (accepted path)
		return []rawPart{{IsLit: true, Lit: []byte(plain), Sync: g.t.Choose(2) == 0}}
	}
}

func cat(parts ...interface{}) []rawPart {
	var out []rawPart
	for _, p := range parts {
		switch x := p.(type) {
		case string:
			out = append(out, rawPart{Text: x})
		case []rawPart:
			out = append(out, x...)
		case rawPart:
			out = append(out, x)
		}
	}
	return out
}

func (g *c04gen) add(name string, parts []rawPart) *rawCmd {
	g.cmds = append(g.cmds, rawCmd{Tag: g.tag(), Name: name, Parts: parts, NoWait: g.t.Choose(4) == 3})
	return &g.cmds[len(g.cmds)-1]
}

func (g *c04gen) one() {
	mb := []string{"INBOX", "Archive", "box1"}[g.t.Choose(3)]
	switch g.t.Choose(25) {
	case 0:
		g.add("LOGIN", cat("LOGIN ", g.str("user"), " ", g.str("pass")))
	case 1:
		g.add("SELECT", cat([]string{"SELECT ", "EXAMINE "}[g.t.Choose(2)], g.str(mb)))
	case 2:
		g.add("ADMIN", cat([]string{"CREATE ", "DELETE ", "SUBSCRIBE ", "UNSUBSCRIBE "}[g.t.Choose(4)], g.str(mb)))
	case 3:
		g.add("RENAME", cat("RENAME ", g.str(mb), " ", g.str("dst")))
	case 4:
		g.add("STATUS", cat("STATUS ", g.str(mb), " (MESSAGES UIDNEXT)"))
	case 5:
		if g.t.Choose(3) == 0 {
			// the extended forms: selection options, several patterns, return options - well formed and not
			g.add("LIST", cat("LIST ", []string{
				`"" (INBOX "A*")`, `(SUBSCRIBED) "" ("*" %)`, `"" ("*") RETURN (CHILDREN STATUS (MESSAGES))`, `"" ()`, `"" ((`, `"" (INBOX (%))`, `"" (`,
				`(SUBSCRIBED (REMOTE)) "" *`, `"" (INBOX) RETURN ((`, `() "" ("a" "b") RETURN ()`, `"" ("x" ) `, `"" (% %`,
			}[g.t.Choose(12)]))
			return
		}
		g.add("LIST", cat([]string{"LIST ", "LSUB "}[g.t.Choose(2)], g.str(""), " ", g.str("*")))
	case 6, 7, 8:
		// APPEND: the message literal
		sizes := []int{0, 30, 4096, 4097, 6000, 1, 300}
		lit := rawPart{IsLit: true, Lit: g.payload(sizes[g.t.Choose(len(sizes))]), Sync: g.t.Choose(2) == 0}
		if g.t.Choose(12) == 0 {
			lit.Lit = nil
			lit.Announce = g.hugeSize()
			lit.Sync = true // a conforming peer waits; the server must refuse before any payload
		}
		parts := cat("APPEND ", g.str(mb), " ")
		if g.t.Choose(3) == 0 {
			parts = cat(parts, "(\\Seen) ")
		}
		parts = cat(parts, lit)
		if lit.Announce == 0 && g.t.Choose(8) == 0 {
			parts = cat(parts, " garbage")
		}
		g.add("APPEND", parts)
	case 9:
		g.add("SEARCH", cat([]string{"SEARCH ", "UID SEARCH "}[g.t.Choose(2)], "HEADER ", g.str("Subject"), " ", g.str("hello")))
	case 10:
		g.add("SEARCH", cat("SEARCH ", []string{"BODY ", "TEXT ", "NOT BODY "}[g.t.Choose(3)], g.str("needle")))
	case 11:
		g.add("FETCH", cat("FETCH 1:* (FLAGS BODY.PEEK[HEADER.FIELDS (", g.str("Subject"), " ", g.str("From"), ")])"))
	case 12:
		g.add("STORE", cat("STORE 1 +FLAGS (\\Seen)"))
	case 13:
		g.add("COPY", cat([]string{"COPY 1 ", "MOVE 1:2 ", "UID COPY 1 "}[g.t.Choose(3)], g.str(mb)))
	case 14:
		g.add("SIMPLE", cat([]string{"NOOP", "CAPABILITY", "ENABLE IMAP4rev2", "NAMESPACE", "UNSELECT", "CLOSE", "EXPUNGE", "CHECK", "UID EXPUNGE 1:3", "UNAUTHENTICATE"}[g.t.Choose(10)]))
	case 15:
		c := g.add("IDLE", cat("IDLE"))
		c.Cont = []string{"DONE"}
		c.IdleFor = []time.Duration{0, time.Second, 3 * time.Minute, 40 * time.Second}[g.t.Choose(4)]
		c.NoWait = false
		if g.t.Choose(5) == 4 {
			// the idler ends IDLE with one over-long line that carries command-like text past the server's line buffer
			c.Cont = []string{g.longLine()}
		}
	case 16:
		var c *rawCmd
		switch g.t.Choose(4) {
		case 0:
			c = g.add("AUTHENTICATE", cat("AUTHENTICATE PLAIN AHVzZXIAcGFzcw=="))
		case 1:
			c = g.add("AUTHENTICATE", cat("AUTHENTICATE PLAIN"))
			c.Cont = []string{"AHVzZXIAcGFzcw=="}
		case 2:
			c = g.add("AUTHENTICATE", cat("AUTHENTICATE LOGIN"))
			c.Cont = []string{"dXNlcg==", "cGFzcw=="}
		default:
			c = g.add("AUTHENTICATE", cat("AUTHENTICATE LOGIN"))
			c.Cont = []string{"*"}
		}
		if len(c.Cont) > 0 && g.t.Choose(6) == 5 {
			// an over-long SASL response line carrying command-like text
			c.Cont = []string{g.longLine()}
		}
		c.NoWait = false
	case 17:
		// unknown command with arguments (possibly literals) that are never reached by a parser
		g.add("UNKNOWN", cat("FROBNICATE ", g.str("arg"), " ", g.str("arg2")))
	case 18:
		// syntax error before the literal is reached
		g.add("SYNTAXERR", cat([]string{"SELECT  ", "FETCH x ", "STORE 1 BOGUS ", "LOGIN onlyone", "STATUS "}[g.t.Choose(5)], g.str("v")))
	case 19:
		// command in a state where it is refused, with a literal argument
		g.add("SEARCH", cat("SEARCH SUBJECT ", g.str("s"), " OR TO ", g.str("t"), " CC ", g.str("c")))
	case 20:
		g.add("LOGOUT", cat("LOGOUT"))
	case 21:
		g.add("LOGIN", cat("LOGIN ", g.str("user"), " ", g.str("pass")))
	case 24:
		// command-like text right behind a literal argument, on the same line; the literal is well formed on the wire but
		// may be refused for its value (invalid modified UTF-7) after it was read: the rest of the line is never a command
		k := len(g.poison)
		marker := fmt.Sprintf("POISON%d", k)
		g.poison = append(g.poison, marker, fmt.Sprintf("PZN%d", k))
		val := []string{"&&&", "box1", "&AOk", "a&b", "INBOX", "&-&"}[g.t.Choose(6)]
		lit := rawPart{IsLit: true, Lit: []byte(val), Sync: g.t.Choose(2) == 0}
		tail := fmt.Sprintf("PZN%d CREATE %s", k, marker)
		if g.t.Choose(2) == 0 {
			tail = " " + tail
		}
		g.add("ADMIN", cat([]string{"SELECT ", "DELETE ", "CREATE ", "STATUS ", "EXAMINE ", "SUBSCRIBE "}[g.t.Choose(6)], lit, tail))
	case 22:
		g.add("SELECT", cat("SELECT ", g.str(mb)))
	default:
		g.add("FETCH", cat("UID FETCH 1 (UID BODY[]"+[]string{"", "", "<0.5>", "<9223372036854775807.2>", "<9223372036854775808.1>", "<1.18446744073709551615>", "<18446744073709551616.1>"}[g.t.Choose(7)]+")"))
	}
}

// hugeSize is an announced literal size over the 100 MiB APPEND limit, up to the top of the 64-bit range.
func (g *c04gen) hugeSize() uint64 {
	return []uint64{100*1024*1024 + 1, 100*1024*1024 + 2, 100*1024*1024 + 3, 1 << 32, 1<<63 - 1, 1 << 63, 1<<63 + 4097, ^uint64(0)}[g.t.Choose(8)]
}

func runC04(r *R) {
	t := r.P
	capsVariant := t.Choose(4)
	netMode := t.Choose(4)
	fetchLit := []int{0, 10, 700}[t.Choose(3)]
	idleUpdates := t.Choose(4)
	g := &c04gen{t: t}
	// usually start by logging in and selecting, so that deeper states are explored
	if t.Choose(5) != 0 {
		g.cmds = append(g.cmds, rawCmd{Tag: g.tag(), Name: "LOGIN", Parts: cat(`LOGIN "user" "pass"`)})
		if t.Choose(3) != 0 {
			g.cmds = append(g.cmds, rawCmd{Tag: g.tag(), Name: "SELECT", Parts: cat(`SELECT INBOX`)})
		}
		if t.Choose(3) == 0 {
			// (with UTF8=ACCEPT / IMAP4rev2 enabled the server's own encoder quotes 8-bit strings)
			g.cmds = append(g.cmds, rawCmd{Tag: g.tag(), Name: "SIMPLE", Parts: cat(`ENABLE IMAP4rev2 UTF8=ACCEPT`)})
		}
	}
	n := 1 + t.Choose(10)
	for i := 0; i < n; i++ {
		g.one()
	}
	cfg := r.SchedConfig()
	b := newStubBackend()
	b.fetchLit = fetchLit
	// 1 run in 2: the backend refuses some APPENDs (without reading the message, or after reading part of it)
	if refuse := t.Choose(2) == 1; refuse {
		failTape := simrt.NewTape(uint64(t.Choose(1<<20)) + 31)
		b.failEach = func(method string) bool { return method == "Append" && failTape.Choose(2) == 0 }
	}
	b.idleHook = func(sess int, w *imapserver.UpdateWriter, stop <-chan struct{}) {
		for i := 0; i < idleUpdates; i++ {
			tm := time.NewTimer(time.Duration(1+i) * 20 * time.Second)
			idx, _, _ := simrt.Select(false, simrt.RecvCase(stop), simrt.RecvCase(tm.C))
			tm.Stop()
			if idx == 0 {
				return
			}
			w.WriteNumMessages(uint32(4 + i))
			r.Probe("idle_update_written")
		}
		simrt.Recv(stop)
	}
	var peer *rawPeer
	var env *stubEnv
	for i := range g.cmds {
		r.Tracef("cmd %s", describeCmd(&g.cmds[i]))
	}
	r.Sim(cfg, func() {
		env = newStubEnv(r, b, &imapserver.Options{Caps: serverCaps(capsVariant), InsecureAuth: true})
		cc, sc := env.Connect("peer")
		switch netMode {
		case 1:
			cc.SetSegMode(2) // client bytes arrive one at a time
		case 2:
			cc.SetSegMode(1)
			sc.SetShortReads(true)
		case 3:
			sc.SetShortReads(true)
			sc.SetSendBuffer(32)
		}
		peer = newRawPeer(r, "peer", cc)
		done := make(chan struct{})
		simrt.GoTask("peer", func() {
			defer close(done)
			if peer.waitGreeting() {
				peer.run(g.cmds)
			}
			// read until the server has nothing more to say, so that the last line is whole
			peer.timeout = 2 * time.Second
			peer.drain()
			cc.Close()
		})
		waitOrTimeout(done, 24*time.Hour)
		env.srv.Close()
	})
	if r.Res.Infra != "" || peer == nil {
		return
	}
	r.CheckLiveness(true)
	c04Judge(r, peer, b, env, g.poison)
}

func c04Judge(r *R, peer *rawPeer, b *stubBackend, env *stubEnv, poison []string) {
	for _, p := range env.log.panics() {
		r.Violate("server-panic", panicLogClass(p), "%s", p)
	}
	sent := map[string]int{}
	var order []string
	conts := 0
	for _, o := range peer.outcomes {
		conts += o.Conts
		if o.Sent {
			r.Nontrivial = true
			sent[o.Cmd.Tag]++
			order = append(order, o.Cmd.Tag)
		}
		if o.LitWait >= 20*time.Second {
			// simulated time only advances when every goroutine is blocked: the server sat on the
			// announcement until its own read timeout fired
			r.Violate("literal-announcement-unanswered", o.Cmd.Name, "command %s: the peer announced a synchronising literal and waited; the server sent neither a continuation request nor a tagged refusal (RFC 9051 4.3) for %v of simulated time, i.e. until its own read timeout (outcome: %s)", describeCmd(o.Cmd), o.LitWait, o.describe())
		}
		if o.Sent && o.Reply == nil && o.TimedOut {
			r.Violate("no-tagged-reply", o.Cmd.Name, "command %s was completely sent, the connection stayed open, and no tagged reply arrived within 10 simulated minutes", describeCmd(o.Cmd))
		}
		for _, l := range o.Cmd.Parts {
			if l.IsLit {
				if l.Sync {
					r.Probe("sync_literal_sent")
					if o.Refused {
						r.Probe("sync_literal_refused")
					}
				} else {
					r.Probe("nonsync_literal_sent")
				}
			}
		}
	}
	// every server line is whole and well formed; tagged replies match complete commands, once, in order
	seen := map[string]int{}
	var replyOrder []string
	gotConts := 0
	for i, rp := range peer.resps {
		if rp.Err != "" {
			r.Violate("malformed-response", rp.Err, "server line %d is not well formed (%s): %q", i, rp.Err, clipStr(string(rp.Line.Raw), 300))
			continue
		}
		if rp.Tag == "+" {
			gotConts++
			continue
		}
		if rp.Tag == "*" {
			continue
		}
		for _, m := range poison {
			if strings.Contains(rp.Tag, m) {
				r.Violate("smuggled-literal", "tagged reply to literal payload", "the server answered tag %q, which only ever occurred inside a literal payload or in the middle of an over-long line: %q", rp.Tag, clipStr(string(rp.Line.Raw), 200))
			}
		}
		seen[rp.Tag]++
		replyOrder = append(replyOrder, rp.Tag)
		if sent[rp.Tag] == 0 && !isPoison(rp.Tag, poison) {
			r.Violate("unknown-tag", "reply without command", "tagged reply %q does not answer any completely sent command", clipStr(string(rp.Line.Raw), 200))
		}
		if seen[rp.Tag] > 1 {
			r.Violate("double-reply", cmdNameOf(peer, rp.Tag), "tag %s was answered %d times", rp.Tag, seen[rp.Tag])
		}
	}
	if tail := peer.buf[peer.lineEnd:]; len(tail) > 0 {
		r.Violate("torn-line", "incomplete final line", "the server's output ends with an incomplete line: %q", clipStr(string(tail), 200))
	}
	// order of replies = order of commands (restricted to answered tags)
	j := 0
	for _, tg := range replyOrder {
		if sent[tg] == 0 {
			continue
		}
		for j < len(order) && order[j] != tg {
			j++
		}
		if j == len(order) {
			r.Violate("reply-order", "out of order", "tagged reply %s arrived out of command order %v (replies %v)", tg, order, replyOrder)
			break
		}
	}
	judgeInvites(r, peer.outcomes, "run")
	if gotConts > conts {
		r.Violate("unsolicited-continuation", "extra +", "the server sent %d continuation requests but only %d were solicited by a synchronising literal, AUTHENTICATE or IDLE", gotConts, conts)
	}
	for _, c := range b.calls {
		for _, a := range c.Args {
			for _, m := range poison {
				if strings.HasPrefix(m, "POISON") && (a == m || (c.Method != "Append" && strings.Contains(a, m) && !strings.Contains(a, "\r\n"))) {
					r.Violate("smuggled-literal", "backend call from literal payload", "backend call %s carries %q, which only ever occurred as command-like text inside a literal payload or in the middle of an over-long line", c, m)
				}
			}
		}
	}
	if len(r.viol) > 0 {
		r.Tracef("server output: %q", clipStr(string(peer.buf), 2500))
		for _, c := range b.calls {
			r.Tracef("backend %s", c)
		}
	}
}

func isPoison(tag string, poison []string) bool {
	for _, m := range poison {
		if strings.Contains(tag, m) {
			return true
		}
	}
	return false
}

func cmdNameOf(peer *rawPeer, tag string) string {
	for _, o := range peer.outcomes {
		if o.Cmd.Tag == tag {
			return o.Cmd.Name
		}
	}
	return "?"
}

func panicLogClass(s string) string {
	line := s
	if i := strings.Index(line, "\n"); i >= 0 {
		line = line[:i]
	}
	fn := ""
	for _, l := range strings.Split(s, "\n") {
		if strings.HasPrefix(l, "github.com/emersion/go-imap/") {
			f := l
			if j := strings.LastIndex(f, "("); j > 0 {
				f = f[:j]
			}
			fn = normFunc(f[strings.LastIndex(f, "/")+1:])
			break
		}
	}
	return stripNumbers(clipStr(line, 120)) + " in " + fn
}
