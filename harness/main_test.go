package harness

import "testing"

// TestSim is the entry point of a worker process; the supervisor (check.py) sets the environment.
func TestSim(t *testing.T) { simMain(t) }
