package harness

import (
	"bytes"
	"encoding/json"
	"fmt"
	"sort"
	"strings"
	"time"

	"github.com/emersion/go-imap/v2"
	"github.com/emersion/go-imap/v2/imapclient"
	"github.com/emersion/go-imap/v2/imapserver"
	"verif.local/simrt"
)

// C02 — client commands reach the server backend with the caller's arguments intact.

func init() {
	register(&Prop{
		ID:    "C02",
		Level: "exploration",
		Rule: "case = (server capability set {rev1, rev1+rev2, rev2, rev1+LITERAL+}, optional ENABLE IMAP4rev2/UTF8=ACCEPT, sequence of <=25 client API calls with generated arguments: mailbox names and strings over an adversarial alphabet (quotes, backslash, braces, %, *, &, CR, LF, 0x7f, 8-bit, non-BMP, lengths around 4096), number sets with ranges and *, flag sets, every FETCH item combination with sections/part paths/header lists/partials, STORE modes, SEARCH criteria trees with dates/headers/sizes/NOT/OR and return options, LIST select/return options with STATUS items, APPEND flags/date/payload sizes 0..>4096), network segmentation and schedule. " +
			"Oracle: the call recorded by a stub Session behind the real server equals the caller's arguments up to the normalisations listed in DESIGN.md Appendix E. Non-trivial: at least one generated call was compared. Distinct: distinct event-log hashes.",
		Components:   "real: imapclient.Client, imapserver.Conn, internal/imapwire, internal/utf7, imap (woven); stub: recording Session, network, clock, scheduler",
		Assumptions:  []string{"generated flags, attributes and number sets are valid (the refusal of unrepresentable values is C01's subject)", "strings contain no NUL"},
		QuickRuns:    5000,
		ThoroughRuns: 150000,
		Run:          runC02,
	})
}

var strPieces = []string{"a", "Bc", "z9", " ", "\"", "\\", "{", "}", "(", ")", "%", "*", "&", "-", "/", ".", "é", "ü", "日本", "😀", "\r\n", "\n", "\r", "\x7f", "~", "&-", "&AOk-", "INBOX", "inbox", "NIL", "{3}", "]", "["}
var bytePieces = []string{"\x80", "\xff\xfe", "\xc3"}

func genStr(t *simrt.Tape, utf8Only bool, allowEmpty bool) string {
	switch t.Choose(14) {
	case 0:
		if allowEmpty {
			return ""
		}
		return "x"
	case 1:
		return "plain"
	case 2:
		// (strings over 4096 bytes are refused by the server as buffered literals; what the client
		// does after such a refusal is C12's subject, so only the APPEND payload goes beyond)
		return strings.Repeat("k", []int{4000, 4095, 4096}[t.Choose(3)])
	case 3:
		return "Subject"
	}
	n := 1 + t.Choose(6)
	var sb strings.Builder
	for i := 0; i < n; i++ {
		if !utf8Only && t.Choose(8) == 0 {
			sb.WriteString(bytePieces[t.Choose(len(bytePieces))])
		} else {
			sb.WriteString(strPieces[t.Choose(len(strPieces))])
		}
	}
	return sb.String()
}

func genMailboxName(t *simrt.Tape) string {
	switch t.Choose(6) {
	case 0:
		return []string{"INBOX", "inbox", "InBoX"}[t.Choose(3)]
	case 1:
		return "Archive/2024"
	}
	s := genStr(t, true, false)
	// names made only of CR/LF are legal for the wire codec but add nothing; keep them
	return s
}

var flagPool = []imap.Flag{imap.FlagSeen, imap.FlagAnswered, imap.FlagFlagged, imap.FlagDeleted, imap.FlagDraft, "\\SEEN", "\\deleted", "$Forwarded", "custom", "Keyword_1", "$MDNSent", "\\Weird",
	// keywords spelled like system flags (no backslash): different flags, and they must stay so
	"Seen", "draft", "FLAGGED", "Deleted", "answered", "Recent"}

func genFlags(t *simrt.Tape, min int) []imap.Flag {
	n := min + t.Choose(4)
	var f []imap.Flag
	for i := 0; i < n; i++ {
		f = append(f, flagPool[t.Choose(len(flagPool))])
	}
	return f
}

func genSeqSet(t *simrt.Tape) imap.SeqSet {
	var s imap.SeqSet
	n := 1 + t.Choose(3)
	for i := 0; i < n; i++ {
		switch t.Choose(5) {
		case 0:
			s.AddNum(uint32(1 + t.Choose(50)))
		case 1:
			a := uint32(1 + t.Choose(50))
			s.AddRange(a, a+uint32(t.Choose(10)))
		case 2:
			s.AddRange(uint32(1+t.Choose(50)), 0)
		case 3:
			s.AddRange(0, 0)
		default:
			s.AddNum(4294967295)
		}
	}
	return s
}

func genUIDSet(t *simrt.Tape) imap.UIDSet {
	var s imap.UIDSet
	n := 1 + t.Choose(3)
	for i := 0; i < n; i++ {
		switch t.Choose(4) {
		case 0:
			s.AddNum(imap.UID(1 + t.Choose(5000)))
		case 1:
			a := imap.UID(1 + t.Choose(5000))
			s.AddRange(a, a+imap.UID(t.Choose(100)))
		case 2:
			s.AddRange(imap.UID(1+t.Choose(50)), 0)
		default:
			s.AddRange(1, 4294967295)
		}
	}
	return s
}

func genDate(t *simrt.Tape) time.Time {
	zones := []*time.Location{time.UTC, time.FixedZone("", 3600*5+1800), time.FixedZone("", -3600*11)}
	return time.Date(1990+t.Choose(45), time.Month(1+t.Choose(12)), 1+t.Choose(28), t.Choose(24), t.Choose(60), t.Choose(60), 0, zones[t.Choose(3)])
}

func genCriteria(t *simrt.Tape, depth int) imap.SearchCriteria {
	var c imap.SearchCriteria
	n := t.Choose(5)
	for i := 0; i < n; i++ {
		switch t.Choose(16) {
		case 0:
			c.SeqNum = append(c.SeqNum, genSeqSet(t))
		case 1:
			c.UID = append(c.UID, genUIDSet(t))
		case 2:
			c.Since = genDate(t)
		case 3:
			c.Before = genDate(t)
		case 4:
			c.SentSince = genDate(t)
		case 5:
			c.SentBefore = genDate(t)
		case 6:
			// the "ON" shapes: bounds exactly one day apart
			d := genDate(t)
			if t.Choose(2) == 0 {
				c.Since, c.Before = d, d.Add(24*time.Hour)
			} else {
				c.SentSince, c.SentBefore = d, d.Add(24*time.Hour)
			}
		case 7:
			c.Header = append(c.Header, imap.SearchCriteriaHeaderField{Key: []string{"Subject", "From", "to", "CC", "bcc", "X-Custom", "Message-ID", "List-Id"}[t.Choose(8)], Value: genStr(t, false, true)})
		case 8:
			c.Body = append(c.Body, genStr(t, false, false))
		case 9:
			c.Text = append(c.Text, genStr(t, false, false))
		case 10:
			c.Flag = append(c.Flag, flagPool[t.Choose(len(flagPool))])
		case 11:
			c.NotFlag = append(c.NotFlag, flagPool[t.Choose(len(flagPool))])
		case 12:
			c.Larger = int64(1 + t.Choose(100000))
		case 13:
			c.Smaller = int64(1 + t.Choose(100000))
		case 14:
			if depth > 0 {
				c.Not = append(c.Not, genCriteria(t, depth-1))
			}
		default:
			if depth > 0 {
				c.Or = append(c.Or, [2]imap.SearchCriteria{genCriteria(t, depth-1), genCriteria(t, depth-1)})
			}
		}
	}
	return c
}

func genFetchOptions(t *simrt.Tape) *imap.FetchOptions {
	o := &imap.FetchOptions{Envelope: t.Choose(3) == 0, Flags: t.Choose(2) == 0, InternalDate: t.Choose(3) == 0, RFC822Size: t.Choose(3) == 0, UID: t.Choose(3) == 0}
	switch t.Choose(4) {
	case 1:
		o.BodyStructure = &imap.FetchItemBodyStructure{}
	case 2:
		o.BodyStructure = &imap.FetchItemBodyStructure{Extended: true}
	}
	genPart := func() []int {
		var p []int
		for i, n := 0, t.Choose(4); i < n; i++ {
			p = append(p, 1+t.Choose(9))
		}
		return p
	}
	genPartial := func() *imap.SectionPartial {
		if t.Choose(3) != 0 {
			return nil
		}
		return &imap.SectionPartial{Offset: int64([]int{0, 1, 4096, 1 << 31}[t.Choose(4)]), Size: int64([]int{1, 10, 4096, 1 << 31, 1<<63 - 1}[t.Choose(5)])}
	}
	for i, n := 0, t.Choose(3); i < n; i++ {
		s := &imap.FetchItemBodySection{Part: genPart(), Peek: t.Choose(2) == 0, Partial: genPartial()}
		switch t.Choose(6) {
		case 1:
			s.Specifier = imap.PartSpecifierHeader
		case 2:
			s.Specifier = imap.PartSpecifierText
		case 3:
			if len(s.Part) > 0 {
				s.Specifier = imap.PartSpecifierMIME
			}
		case 4:
			s.Specifier = imap.PartSpecifierHeader
			s.HeaderFields = []string{"Subject", "X-" + strings.ToLower(genToken(t))}[:1+t.Choose(2)]
		case 5:
			s.Specifier = imap.PartSpecifierHeader
			s.HeaderFieldsNot = []string{"Received", "From"}[:1+t.Choose(2)]
		}
		o.BodySection = append(o.BodySection, s)
	}
	if t.Choose(4) == 0 {
		o.BinarySection = append(o.BinarySection, &imap.FetchItemBinarySection{Part: genPart(), Peek: t.Choose(2) == 0, Partial: genPartial()})
	}
	if t.Choose(4) == 0 {
		o.BinarySectionSize = append(o.BinarySectionSize, &imap.FetchItemBinarySectionSize{Part: genPart()})
	}
	if !o.Envelope && !o.Flags && !o.InternalDate && !o.RFC822Size && !o.UID && o.BodyStructure == nil && len(o.BodySection)+len(o.BinarySection)+len(o.BinarySectionSize) == 0 {
		o.Flags = true
	}
	return o
}

func genToken(t *simrt.Tape) string {
	return []string{"Alpha", "beta", "G4mma"}[t.Choose(3)]
}

func genStatusOptions(t *simrt.Tape) *imap.StatusOptions {
	o := &imap.StatusOptions{NumMessages: t.Choose(2) == 0, UIDNext: t.Choose(2) == 0, UIDValidity: t.Choose(2) == 0, NumUnseen: t.Choose(2) == 0, NumDeleted: t.Choose(3) == 0, Size: t.Choose(3) == 0,
		AppendLimit: t.Choose(3) == 0, DeletedStorage: t.Choose(4) == 0}
	if *o == (imap.StatusOptions{}) {
		o.NumMessages = true
	}
	return o
}

type c02op struct {
	Kind    string
	S       []string
	Seq     imap.SeqSet
	UID     imap.UIDSet
	UseUID  bool
	Flags   []imap.Flag
	Attrs   []imap.MailboxAttr
	Fetch   *imap.FetchOptions
	Store   *imap.StoreFlags
	Crit    *imap.SearchCriteria
	SOpts   *imap.SearchOptions
	LOpts   *imap.ListOptions
	StOpts  *imap.StatusOptions
	Time    time.Time
	Payload []byte
	RO      bool
}

func genC02Op(t *simrt.Tape, selected bool) c02op {
	kinds := []string{"Create", "Delete", "Rename", "Subscribe", "Unsubscribe", "List", "List", "Status", "Append", "Append", "Select", "Namespace"}
	if selected {
		kinds = append(kinds, "Fetch", "Fetch", "Fetch", "Store", "Store", "Copy", "Move", "Search", "Search", "Search", "Search", "Expunge", "UIDExpunge", "Unselect", "Close")
	}
	o := c02op{Kind: kinds[t.Choose(len(kinds))]}
	numset := func() {
		o.UseUID = t.Choose(2) == 0
		if o.UseUID {
			o.UID = genUIDSet(t)
		} else {
			o.Seq = genSeqSet(t)
		}
	}
	switch o.Kind {
	case "Create":
		o.S = []string{genMailboxName(t)}
		if t.Choose(3) == 0 {
			o.Attrs = []imap.MailboxAttr{[]imap.MailboxAttr{imap.MailboxAttrDrafts, imap.MailboxAttrSent, imap.MailboxAttrTrash, imap.MailboxAttrArchive}[t.Choose(4)]}
		}
	case "Delete", "Subscribe", "Unsubscribe":
		o.S = []string{genMailboxName(t)}
	case "Rename":
		o.S = []string{genMailboxName(t), genMailboxName(t)}
	case "Select":
		o.S = []string{genMailboxName(t)}
		o.RO = t.Choose(2) == 0
	case "List":
		o.S = []string{genMailboxName(t), []string{"*", "%", "INBOX", "a*b%", "Entw&APw-rfe", "Entwürfe/*", "日本*", "&", "*&*", "*/%"}[t.Choose(10)]}
		if t.Choose(5) == 0 {
			o.S[0] = ""
		}
		if t.Choose(2) == 0 {
			lo := &imap.ListOptions{SelectSubscribed: t.Choose(2) == 0, SelectRemote: t.Choose(3) == 0, ReturnSubscribed: t.Choose(2) == 0, ReturnChildren: t.Choose(2) == 0}
			if lo.SelectSubscribed {
				lo.SelectRecursiveMatch = t.Choose(2) == 0
			}
			if t.Choose(2) == 0 {
				lo.ReturnStatus = genStatusOptions(t)
			}
			o.LOpts = lo
		}
	case "Status":
		o.S = []string{genMailboxName(t)}
		o.StOpts = genStatusOptions(t)
	case "Append":
		o.S = []string{genMailboxName(t)}
		if t.Choose(2) == 0 {
			o.Flags = genFlags(t, 1)
		}
		if t.Choose(2) == 0 {
			o.Time = genDate(t)
		}
		n := []int{0, 1, 57, 4095, 4096, 4097, 9000}[t.Choose(7)]
		o.Payload = make([]byte, n)
		for i := range o.Payload {
			o.Payload[i] = byte(t.Choose(256))
			if t.Choose(4) != 0 {
				o.Payload[i] = "abc \r\n"[i%6]
			}
		}
	case "Fetch":
		numset()
		o.Fetch = genFetchOptions(t)
	case "Store":
		numset()
		o.Store = &imap.StoreFlags{Op: []imap.StoreFlagsOp{imap.StoreFlagsSet, imap.StoreFlagsAdd, imap.StoreFlagsDel}[t.Choose(3)], Silent: t.Choose(2) == 0, Flags: genFlags(t, map[bool]int{true: 0, false: 1}[t.Choose(4) == 3])} // (sometimes an empty list: "FLAGS ()" clears all flags)
	case "Copy", "Move":
		numset()
		o.S = []string{genMailboxName(t)}
	case "Search":
		o.UseUID = t.Choose(2) == 0
		c := genCriteria(t, 2)
		o.Crit = &c
		if t.Choose(2) == 0 {
			o.SOpts = &imap.SearchOptions{ReturnMin: t.Choose(2) == 0, ReturnMax: t.Choose(2) == 0, ReturnAll: t.Choose(2) == 0, ReturnCount: t.Choose(2) == 0, ReturnSave: t.Choose(4) == 0}
		}
	case "UIDExpunge":
		o.UID = genUIDSet(t)
	}
	return o
}

func (o c02op) String() string {
	b, _ := json.Marshal(struct {
		Kind   string
		S      []string            `json:",omitempty"`
		Set    string              `json:",omitempty"`
		UID    bool                `json:",omitempty"`
		Flags  []imap.Flag         `json:",omitempty"`
		Fetch  *imap.FetchOptions  `json:",omitempty"`
		Store  *imap.StoreFlags    `json:",omitempty"`
		Crit   interface{}         `json:",omitempty"`
		SOpts  *imap.SearchOptions `json:",omitempty"`
		LOpts  *imap.ListOptions   `json:",omitempty"`
		StOpts *imap.StatusOptions `json:",omitempty"`
		Time   string              `json:",omitempty"`
		NBytes int                 `json:",omitempty"`
	}{o.Kind, o.S, o.setString(), o.UseUID, o.Flags, o.Fetch, o.Store, normCriteria(o.Crit), o.SOpts, o.LOpts, o.StOpts, fmtTime(o.Time), len(o.Payload)})
	return clipStr(string(b), 700)
}

func fmtTime(t time.Time) string {
	if t.IsZero() {
		return ""
	}
	return t.Format(time.RFC3339)
}

func (o c02op) setString() string {
	if o.UseUID || o.Kind == "UIDExpunge" {
		if o.UID == nil {
			return ""
		}
		return o.UID.String()
	}
	if o.Seq == nil {
		return ""
	}
	return o.Seq.String()
}

// --- normal forms -------------------------------------------------------------------------------

func normMailbox(s string) string {
	if strings.EqualFold(s, "INBOX") {
		return "INBOX"
	}
	return s
}

func normFlag(f imap.Flag) string {
	if strings.HasPrefix(string(f), "\\") {
		return strings.ToLower(string(f))
	}
	return string(f)
}

func normFlags(fs []imap.Flag) []string {
	var out []string
	for _, f := range fs {
		out = append(out, normFlag(f))
	}
	sort.Strings(out)
	return uniq(out)
}

type nCrit struct {
	Seq, UID                          []string
	Since, Before, SentSince, SentBef string
	Header                            [][2]string
	Body, Text, Flag, NotFlag         []string
	Larger, Smaller                   int64
	Not                               []string
	Or                                [][2]string
}

func day(t time.Time) string {
	if t.IsZero() {
		return ""
	}
	return t.Format("2006-01-02")
}

func normCriteria(c *imap.SearchCriteria) *nCrit {
	if c == nil {
		return nil
	}
	n := &nCrit{Since: day(c.Since), Before: day(c.Before), SentSince: day(c.SentSince), SentBef: day(c.SentBefore), Larger: c.Larger, Smaller: c.Smaller}
	for _, s := range c.SeqNum {
		n.Seq = append(n.Seq, s.String())
	}
	for _, s := range c.UID {
		n.UID = append(n.UID, s.String())
	}
	sort.Strings(n.Seq)
	sort.Strings(n.UID)
	for _, h := range c.Header {
		n.Header = append(n.Header, [2]string{strings.ToLower(h.Key), h.Value})
	}
	sort.Slice(n.Header, func(i, j int) bool {
		return n.Header[i][0]+"\x00"+n.Header[i][1] < n.Header[j][0]+"\x00"+n.Header[j][1]
	})
	n.Body = append(n.Body, c.Body...)
	n.Text = append(n.Text, c.Text...)
	sort.Strings(n.Body)
	sort.Strings(n.Text)
	for _, f := range c.Flag {
		n.Flag = append(n.Flag, normFlag(f))
	}
	for _, f := range c.NotFlag {
		n.NotFlag = append(n.NotFlag, normFlag(f))
	}
	sort.Strings(n.Flag)
	sort.Strings(n.NotFlag)
	for i := range c.Not {
		n.Not = append(n.Not, critKey(&c.Not[i]))
	}
	sort.Strings(n.Not)
	for i := range c.Or {
		a, b := critKey(&c.Or[i][0]), critKey(&c.Or[i][1])
		if b < a {
			a, b = b, a
		}
		n.Or = append(n.Or, [2]string{a, b})
	}
	sort.Slice(n.Or, func(i, j int) bool { return n.Or[i][0]+n.Or[i][1] < n.Or[j][0]+n.Or[j][1] })
	return n
}

func critKey(c *imap.SearchCriteria) string {
	b, _ := json.Marshal(normCriteria(c))
	return string(b)
}

type nFetch struct {
	BS                                       string
	Envelope, Flags, InternalDate, Size, UID bool
	Sections, Binary, BinarySize             []string
}

func normFetch(o imap.FetchOptions, uidCmd bool) nFetch {
	n := nFetch{Envelope: o.Envelope, Flags: o.Flags, InternalDate: o.InternalDate, Size: o.RFC822Size, UID: o.UID || uidCmd}
	if o.BodyStructure != nil {
		n.BS = fmt.Sprintf("ext=%v", o.BodyStructure.Extended)
	}
	partial := func(p *imap.SectionPartial) string {
		if p == nil {
			return ""
		}
		return fmt.Sprintf("<%d.%d>", p.Offset, p.Size)
	}
	lower := func(l []string) []string {
		var out []string
		for _, x := range l {
			out = append(out, strings.ToLower(x))
		}
		return out
	}
	for _, s := range o.BodySection {
		n.Sections = append(n.Sections, fmt.Sprintf("%v|%s|%q|%q|%s|peek=%v", s.Part, s.Specifier, lower(s.HeaderFields), lower(s.HeaderFieldsNot), partial(s.Partial), s.Peek))
	}
	for _, s := range o.BinarySection {
		n.Binary = append(n.Binary, fmt.Sprintf("%v|%s|peek=%v", s.Part, partial(s.Partial), s.Peek))
	}
	for _, s := range o.BinarySectionSize {
		n.BinarySize = append(n.BinarySize, fmt.Sprint(s.Part))
	}
	sort.Strings(n.Sections)
	sort.Strings(n.Binary)
	sort.Strings(n.BinarySize)
	return n
}

func jsonEq(a, b interface{}) (string, string, bool) {
	ja, _ := json.Marshal(a)
	jb, _ := json.Marshal(b)
	return string(ja), string(jb), bytes.Equal(ja, jb)
}

// --- execution ----------------------------------------------------------------------------------

func runC02(r *R) {
	t := r.P
	capsVariant := t.Choose(5) // (4: IMAP4rev1 + UIDPLUS without MOVE)
	enable := t.Choose(3)
	netMode := t.Choose(4)
	n := 1 + t.Choose(25)
	var ops []c02op
	selected := false
	for i := 0; i < n; i++ {
		if !selected && t.Choose(2) == 0 {
			ops = append(ops, c02op{Kind: "Select", S: []string{"INBOX"}})
			selected = true
			continue
		}
		o := genC02Op(t, selected)
		switch o.Kind {
		case "Select":
			selected = true
		case "Unselect", "Close":
			selected = false
		}
		ops = append(ops, o)
	}
	user, pass := genStr(t, false, false), genStr(t, false, true)
	cfg := r.SchedConfig()
	b := &recBackend{}
	type result struct {
		op    c02op
		err   error
		first int // index of the first backend call made while the op ran
		last  int
	}
	var results []result
	var loginErr error
	var srvLog *logBuf
	r.Sim(cfg, func() {
		caps := serverCaps(capsVariant)
		delete(caps, imap.CapUnauthenticate)
		log := &logBuf{}
		srvLog = log
		srv := imapserver.New(&imapserver.Options{Caps: caps, InsecureAuth: true, NewSession: b.NewSession, Logger: log})
		ln := r.Net.Listen()
		simrt.GoNamed("server.Serve", func() { srv.Serve(ln) })
		cc, sc := r.Net.Pair("cli", "srv")
		ln.Push(sc)
		switch netMode {
		case 1:
			cc.SetSegMode(2)
		case 2:
			sc.SetShortReads(true)
		case 3:
			cc.SetSendBuffer(80)
			sc.SetShortReads(true)
		}
		c := imapclient.New(cc, nil)
		done := make(chan struct{})
		simrt.GoTask("caller", func() {
			defer close(done)
			loginErr = c.Login(user, pass).Wait()
			if loginErr != nil {
				return
			}
			switch enable {
			case 1:
				c.Enable(imap.CapIMAP4rev2).Wait()
			case 2:
				c.Enable(imap.CapUTF8Accept).Wait()
			}
			for _, o := range ops {
				first := len(b.calls)
				err := c02Issue(c, o)
				results = append(results, result{o, err, first, len(b.calls)})
				r.Tracef("%s -> err=%v", o, err)
				if err != nil && !isIMAPStatusErr(err) {
					return // connection-level failure: nothing more can be compared
				}
			}
			c.Logout().Wait()
			c.Close()
		})
		waitOrTimeout(done, 24*time.Hour)
		c.Close()
		srv.Close()
	})
	if r.Res.Infra != "" {
		return
	}
	r.CheckLiveness(false)
	if loginErr != nil {
		r.Violate("call-failed", "Login", "Login(%q, %q) failed: %v", user, pass, loginErr)
		return
	}
	if len(b.calls) == 0 || b.calls[0].Method != "Login" || b.calls[0].S[0] != user || b.calls[0].S[1] != pass {
		got := "nothing"
		if len(b.calls) > 0 {
			got = fmt.Sprintf("%s%q", b.calls[0].Method, b.calls[0].S)
		}
		r.Violate("argument-mismatch", "Login", "caller passed Login(%q, %q), backend received %s", user, pass, got)
	}
	readOnly := false // the mailbox was selected with EXAMINE: the server refuses changes and never sets \Seen
	for _, res := range results {
		r.Nontrivial = true
		c02Compare(r, res.op, res.err, b.calls[res.first:res.last], readOnly, capsVariant == 4)
		if res.op.Kind == "Select" && res.err == nil {
			readOnly = res.op.RO
		}
	}
	if len(r.viol) > 0 && srvLog != nil {
		for _, l := range srvLog.all() {
			r.Tracef("server log: %s", clipStr(l, 400))
		}
	}
}

func c02Issue(c *imapclient.Client, o c02op) error {
	var numSet imap.NumSet
	if o.UseUID {
		numSet = o.UID
	} else {
		numSet = o.Seq
	}
	switch o.Kind {
	case "Create":
		var co *imap.CreateOptions
		if o.Attrs != nil {
			co = &imap.CreateOptions{SpecialUse: o.Attrs}
		}
		return c.Create(o.S[0], co).Wait()
	case "Delete":
		return c.Delete(o.S[0]).Wait()
	case "Rename":
		return c.Rename(o.S[0], o.S[1]).Wait()
	case "Subscribe":
		return c.Subscribe(o.S[0]).Wait()
	case "Unsubscribe":
		return c.Unsubscribe(o.S[0]).Wait()
	case "Select":
		_, err := c.Select(o.S[0], &imap.SelectOptions{ReadOnly: o.RO}).Wait()
		return err
	case "List":
		_, err := c.List(o.S[0], o.S[1], o.LOpts).Collect()
		return err
	case "Status":
		_, err := c.Status(o.S[0], o.StOpts).Wait()
		return err
	case "Append":
		var ao *imap.AppendOptions
		if o.Flags != nil || !o.Time.IsZero() {
			ao = &imap.AppendOptions{Flags: o.Flags, Time: o.Time}
		}
		cmd := c.Append(o.S[0], int64(len(o.Payload)), ao)
		cmd.Write(o.Payload)
		cmd.Close()
		_, err := cmd.Wait()
		return err
	case "Fetch":
		_, err := c.Fetch(numSet, o.Fetch).Collect()
		return err
	case "Store":
		_, err := c.Store(numSet, o.Store, nil).Collect()
		return err
	case "Copy":
		_, err := c.Copy(numSet, o.S[0]).Wait()
		return err
	case "Move":
		_, err := c.Move(numSet, o.S[0]).Wait()
		return err
	case "Search":
		var err error
		if o.UseUID {
			_, err = c.UIDSearch(o.Crit, o.SOpts).Wait()
		} else {
			_, err = c.Search(o.Crit, o.SOpts).Wait()
		}
		return err
	case "Expunge":
		_, err := c.Expunge().Collect()
		return err
	case "UIDExpunge":
		_, err := c.UIDExpunge(o.UID).Collect()
		return err
	case "Unselect":
		return c.Unselect().Wait()
	case "Close":
		return c.UnselectAndExpunge().Wait()
	case "Namespace":
		_, err := c.Namespace().Wait()
		return err
	}
	return fmt.Errorf("unknown op %s", o.Kind)
}

func c02Compare(r *R, o c02op, err error, calls []recCall, readOnly bool, uidPlus bool) {
	mismatch := func(field string, want, got interface{}) {
		r.Violate("argument-mismatch", o.Kind+"."+field, "%s: the caller passed %s = %v but the backend received %v\n  call: %s\n  backend calls: %s", o.Kind, field, want, got, o, describeRec(calls))
	}
	if readOnly {
		switch o.Kind {
		case "Store", "Expunge", "UIDExpunge", "Move":
			// RFC 9051 6.3.3: no change is permitted to a mailbox opened with EXAMINE; the command is refused
			// and the backend is not reached
			r.Probe("read-only-refusal")
			for _, c := range calls {
				switch c.Method {
				case "Store", "Expunge", "Move": // (a COPY of the MOVE fallback is legitimate: it does not change this mailbox)
					r.Violate("read-only-violated", o.Kind, "%s in a mailbox selected read-only reached the backend: %s", o.Kind, describeRec(calls))
					return
				}
			}
			if err == nil || !isIMAPStatusErr(err) {
				r.Violate("read-only-violated", o.Kind, "%s in a mailbox selected read-only returned %v instead of a NO", o.Kind, err)
			}
			return
		case "Close":
			for _, c := range calls {
				if c.Method == "Expunge" {
					r.Violate("read-only-violated", "Close", "CLOSE of a mailbox selected read-only expunged: %s", describeRec(calls))
					return
				}
			}
		case "Fetch":
			// the server turns every section into a PEEK
			f := *o.Fetch
			f.BodySection = nil
			for _, bs := range o.Fetch.BodySection {
				c := *bs
				c.Peek = true
				f.BodySection = append(f.BodySection, &c)
			}
			f.BinarySection = nil
			for _, bs := range o.Fetch.BinarySection {
				c := *bs
				c.Peek = true
				f.BinarySection = append(f.BinarySection, &c)
			}
			o.Fetch = &f
		}
	}
	// pick the call of the expected method (Select may be preceded by Unselect, Close by Expunge)
	method := map[string]string{"Create": "Create", "Delete": "Delete", "Rename": "Rename", "Subscribe": "Subscribe", "Unsubscribe": "Unsubscribe", "Select": "Select", "List": "List", "Status": "Status", "Append": "Append", "Fetch": "Fetch", "Store": "Store", "Copy": "Copy", "Move": "Move", "Search": "Search", "Expunge": "Expunge", "UIDExpunge": "Expunge", "Unselect": "Unselect", "Close": "Unselect", "Namespace": "Namespace"}[o.Kind]
	var got []recCall
	for _, c := range calls {
		if c.Method == method {
			got = append(got, c)
		}
	}
	if o.Kind == "Move" && len(got) == 0 && err == nil {
		// documented fallback when the server lacks MOVE: COPY + STORE +FLAGS.SILENT \Deleted + EXPUNGE
		var cp, st, ex *recCall
		for i := range calls {
			switch calls[i].Method {
			case "Copy":
				cp = &calls[i]
			case "Store":
				st = &calls[i]
			case "Expunge":
				ex = &calls[i]
			}
		}
		if cp == nil || st == nil || ex == nil {
			r.Violate("invocation-count", "Move", "Move: neither a backend Move nor the complete COPY+STORE+EXPUNGE fallback was seen\n  call: %s\n  backend calls: %s", o, describeRec(calls))
			return
		}
		// with UIDPLUS the fallback of a UID MOVE must expunge exactly the moved messages (UID EXPUNGE <set>), not
		// every message that happens to be \Deleted
		if o.UseUID && uidPlus && (!ex.UIDCmd || ex.NumSet != o.setString()) {
			mismatch("fallback expunge", "UID EXPUNGE "+o.setString(), fmt.Sprintf("EXPUNGE uid=%v set=%q", ex.UIDCmd, ex.NumSet))
		}
		sf := st.V.(imap.StoreFlags)
		if cp.NumSet != o.setString() || cp.UIDCmd != o.UseUID || cp.S[0] != normMailbox(o.S[0]) || st.NumSet != o.setString() || st.UIDCmd != o.UseUID || sf.Op != imap.StoreFlagsAdd || len(sf.Flags) != 1 || normFlag(sf.Flags[0]) != "\\deleted" {
			mismatch("fallback", o.String(), describeRec(calls))
		}
		return
	}
	if err != nil {
		r.Violate("call-failed", o.Kind, "%s failed although the backend accepts everything: %v\n  call: %s\n  backend calls: %s", o.Kind, err, o, describeRec(calls))
		return
	}
	if len(got) != 1 {
		r.Violate("invocation-count", o.Kind, "%s: expected exactly one backend %s invocation, saw %d\n  call: %s\n  backend calls: %s", o.Kind, method, len(got), o, describeRec(calls))
		return
	}
	g := got[0]
	cmpStrs := func(mailboxIdx ...int) {
		isMb := map[int]bool{}
		for _, i := range mailboxIdx {
			isMb[i] = true
		}
		if len(g.S) != len(o.S) {
			mismatch("strings", fmt.Sprintf("%q", o.S), fmt.Sprintf("%q", g.S))
			return
		}
		for i := range o.S {
			want := o.S[i]
			if isMb[i] {
				want = normMailbox(want)
			}
			if g.S[i] != want {
				mismatch(fmt.Sprintf("arg%d", i), fmt.Sprintf("%q", want), fmt.Sprintf("%q", g.S[i]))
			}
		}
	}
	cmpSet := func() {
		if g.NumSet != o.setString() || g.UIDCmd != (o.UseUID || o.Kind == "UIDExpunge") {
			mismatch("numset", fmt.Sprintf("%s (uid=%v)", o.setString(), o.UseUID), fmt.Sprintf("%s (uid=%v)", g.NumSet, g.UIDCmd))
		}
	}
	switch o.Kind {
	case "Create":
		cmpStrs(0)
		var want, have []string
		for _, a := range o.Attrs {
			want = append(want, strings.ToLower(string(a)))
		}
		for _, a := range g.V.([]imap.MailboxAttr) {
			have = append(have, strings.ToLower(string(a)))
		}
		if a, b, ok := jsonEq(want, have); !ok {
			mismatch("SpecialUse", a, b)
		}
	case "Delete", "Subscribe", "Unsubscribe", "Status":
		cmpStrs(0)
		if o.Kind == "Status" {
			if a, b, ok := jsonEq(*o.StOpts, g.V); !ok {
				mismatch("StatusOptions", a, b)
			}
		}
	case "Rename":
		cmpStrs(0, 1)
	case "Select":
		cmpStrs(0)
		if g.V.(imap.SelectOptions).ReadOnly != o.RO {
			mismatch("ReadOnly", o.RO, g.V.(imap.SelectOptions).ReadOnly)
		}
	case "List":
		cmpStrs(0, 1)
		want := imap.ListOptions{}
		if o.LOpts != nil {
			want = *o.LOpts
		}
		if a, b, ok := jsonEq(want, g.V); !ok {
			mismatch("ListOptions", a, b)
		}
	case "Append":
		cmpStrs(0)
		ao := g.V.(imap.AppendOptions)
		if a, b, ok := jsonEq(normFlags(o.Flags), normFlags(ao.Flags)); !ok {
			mismatch("Flags", a, b)
		}
		if !bytes.Equal(g.Bytes, o.Payload) {
			mismatch("payload", fmt.Sprintf("%d bytes %q", len(o.Payload), clipStr(string(o.Payload), 40)), fmt.Sprintf("%d bytes %q", len(g.Bytes), clipStr(string(g.Bytes), 40)))
		}
		if o.Time.IsZero() != ao.Time.IsZero() || (!o.Time.IsZero() && (!ao.Time.Equal(o.Time) || ao.Time.Format("-0700") != o.Time.Format("-0700"))) {
			mismatch("Time", o.Time.Format(time.RFC3339), ao.Time.Format(time.RFC3339))
		}
	case "Fetch":
		cmpSet()
		if a, b, ok := jsonEq(normFetch(*o.Fetch, o.UseUID), normFetch(g.V.(imap.FetchOptions), g.UIDCmd)); !ok {
			mismatch("FetchOptions", a, b)
		}
	case "Store":
		cmpSet()
		sf := g.V.(imap.StoreFlags)
		if sf.Op != o.Store.Op || sf.Silent != o.Store.Silent {
			mismatch("StoreFlags.Op/Silent", fmt.Sprintf("op=%d silent=%v", o.Store.Op, o.Store.Silent), fmt.Sprintf("op=%d silent=%v", sf.Op, sf.Silent))
		}
		if a, b, ok := jsonEq(normFlags(o.Store.Flags), normFlags(sf.Flags)); !ok {
			mismatch("StoreFlags.Flags", a, b)
		}
	case "Copy", "Move":
		cmpSet()
		cmpStrs(0)
	case "Search":
		v := g.V.([2]interface{})
		gc := v[0].(imap.SearchCriteria)
		if g.UIDCmd != o.UseUID {
			mismatch("kind", o.UseUID, g.UIDCmd)
		}
		if a, b, ok := jsonEq(normCriteria(o.Crit), normCriteria(&gc)); !ok {
			mismatch("SearchCriteria", a, b)
		}
		want := imap.SearchOptions{}
		if o.SOpts != nil {
			want = *o.SOpts
		}
		if !want.ReturnMin && !want.ReturnMax && !want.ReturnAll && !want.ReturnCount {
			want.ReturnAll = true // RFC 4731: with no result option, ALL is assumed
		}
		if a, b, ok := jsonEq(want, v[1]); !ok {
			mismatch("SearchOptions", a, b)
		}
	case "UIDExpunge":
		cmpSet()
	case "Expunge":
		if g.UIDCmd {
			mismatch("uids", "nil", g.NumSet)
		}
	}
}

func describeRec(calls []recCall) string {
	var s []string
	for _, c := range calls {
		v, _ := json.Marshal(c.V)
		s = append(s, fmt.Sprintf("%s%q set=%s uid=%v %s bytes=%d", c.Method, c.S, c.NumSet, c.UIDCmd, clipStr(string(v), 400), len(c.Bytes)))
	}
	return strings.Join(s, " ; ")
}
