package harness

import (
	"crypto/ed25519"
	"crypto/rand"
	"crypto/tls"
	"crypto/x509"
	"crypto/x509/pkix"
	"math/big"
	"sync"
	"time"
)

var (
	tlsOnce   sync.Once
	tlsServer *tls.Config
)

// testTLS returns server and client TLS configurations built around one Ed25519 self-signed
// certificate (fixed-length signatures: handshake record lengths are the same in every run, so
// schedules, which depend on byte counts only, replay exactly although key material differs
// between processes). Certificate validation is not under test: clients skip verification.
func testTLS() (*tls.Config, *tls.Config) {
	tlsOnce.Do(func() {
		pub, priv, err := ed25519.GenerateKey(rand.Reader)
		if err != nil {
			panic(err)
		}
		tmpl := &x509.Certificate{
			SerialNumber: big.NewInt(1),
			Subject:      pkix.Name{CommonName: "sim"},
			NotBefore:    time.Date(1999, 1, 1, 0, 0, 0, 0, time.UTC),
			NotAfter:     time.Date(2100, 1, 1, 0, 0, 0, 0, time.UTC),
			DNSNames:     []string{"sim"},
			KeyUsage:     x509.KeyUsageDigitalSignature,
			ExtKeyUsage:  []x509.ExtKeyUsage{x509.ExtKeyUsageServerAuth},
		}
		der, err := x509.CreateCertificate(rand.Reader, tmpl, tmpl, pub, priv)
		if err != nil {
			panic(err)
		}
		tlsServer = &tls.Config{Certificates: []tls.Certificate{{Certificate: [][]byte{der}, PrivateKey: priv}}, MinVersion: tls.VersionTLS13}
	})
	return tlsServer.Clone(), &tls.Config{InsecureSkipVerify: true, MinVersion: tls.VersionTLS13}
}
