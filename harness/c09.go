package harness

import (
	"fmt"
	"regexp"
	"sort"
	"strconv"
	"strings"
	"time"

	"verif.local/simrt"
)

// C09 — the in-memory backend obeys IMAP mailbox semantics (executable reference model).
//
// The model is written from RFC 9051 (sections 2.3.1.1, 6.3, 6.4, 7) and the property statement.
// Messages are constructed by the generator, so every header, part and byte range is known by
// construction and the model needs no MIME parser.

func init() {
	register(&Prop{
		ID:    "C09",
		Level: "exploration",
		Rule: "case = history of <=40 commands by 1..2 sessions of one user against the real server and in-memory backend: CREATE / DELETE / RENAME / SUBSCRIBE / UNSUBSCRIBE / LIST / LSUB with wildcard patterns, STATUS, APPEND of constructed messages (single part and multipart, headers and dates known), SELECT / EXAMINE / CLOSE / UNSELECT, STORE set/add/remove with mixed-case flags (+SILENT), COPY, MOVE, EXPUNGE, UID EXPUNGE, SEARCH with every key in every order (flags, keywords, sets, UID sets, LARGER/SMALLER, BEFORE/ON/SINCE, SENTBEFORE/SENTON/SENTSINCE with dates whose zone crosses midnight, HEADER/SUBJECT/FROM/TO/BODY/TEXT, NOT, OR nesting), FETCH of FLAGS/UID/RFC822.SIZE/INTERNALDATE/BODY[section]<partial> with offsets and sizes 0, len, len+1, 2^31, 2^63-1, in UID and non-UID forms. Before every sequence-number command the acting session synchronises with NOOP, so views are never stale here (staleness is C08's subject). " +
			"Oracle: executable reference mailbox model predicting every response. Non-trivial: at least five commands were compared. Distinct: distinct event-log hashes.",
		Components:   "real: imapserver (command parsers, SEARCH key folding, MatchList), imapmemserver, internal/imapwire (woven); stub: scripted raw peers, reference model, network, clock, scheduler",
		Assumptions:  []string{"comparison is order-insensitive where the RFC is (untagged data order, flag order, FETCH item order)", "not predicted: absolute UID and UIDVALIDITY values (only their laws: strictly increasing, never reused, fresh after delete+recreate), response texts and optional codes, LIST attributes, behaviour of DELETE/RENAME on a mailbox that is selected"},
		QuickRuns:    4000,
		ThoroughRuns: 120000,
		Run:          runC09,
	})
}

// --- constructed messages -----------------------------------------------------------------------

type m9part struct{ body string }

type m9msg struct {
	raw      string
	hdrEnd   int // offset just after the blank line
	fields   [][2]string
	parts    []string // bodies of the multipart parts (nil: single part)
	date     time.Time
	hasDate  bool
	internal time.Time
	// state
	uid   uint32
	flags map[string]bool // lower-cased
	id    int
}

var m9subjects = []string{"Hello world", "Meeting notes", "invoice 2024", "RE: Hello", "Zürich trip", "x"}
var m9from = []string{"alice@example.org", "Bob <bob@example.com>", "carol@test.invalid"}
var m9bodies = []string{"short body\r\n", "The quick brown fox\r\njumps over the lazy dog\r\n", "needle in a haystack\r\n", "", "line1\r\nline2\r\nline3\r\nHELLO again\r\n"}

func genM9(t *simrt.Tape, id int) *m9msg {
	m := &m9msg{flags: map[string]bool{}, id: id}
	add := func(k, v string) { m.fields = append(m.fields, [2]string{k, v}) }
	add("From", m9from[t.Choose(len(m9from))])
	add("To", m9from[t.Choose(len(m9from))])
	add("Subject", m9subjects[t.Choose(len(m9subjects))])
	{ // (always a Date header: what SENT* keys mean for a message without one is not settled by the RFC)
		zones := []int{0, 5*3600 + 1800, -11 * 3600, 14 * 3600}
		m.date = time.Date(2020+t.Choose(4), time.Month(1+t.Choose(12)), 1+t.Choose(28), []int{0, 1, 12, 23}[t.Choose(4)], 30, 0, 0, time.FixedZone("", zones[t.Choose(4)]))
		m.hasDate = true
		add("Date", m.date.Format("Mon, 02 Jan 2006 15:04:05 -0700"))
	}
	add("Message-ID", fmt.Sprintf("<m%d@example.org>", id))
	if t.Choose(3) == 0 {
		// a field that occurs more than once: every occurrence counts for SEARCH HEADER and HEADER.FIELDS
		add("Received", "from alpha.example by mx.example; id A1")
		add("Received", "from origin.sender by relay.example; id B2")
		if t.Choose(2) == 0 {
			add("Comments", "first remark")
			add("Comments", "second needle remark")
		}
	}
	if t.Choose(3) == 0 {
		add("X-Custom", []string{"alpha", "Beta gamma", "needle"}[t.Choose(3)])
	}
	var body string
	if t.Choose(3) == 0 {
		p1, p2 := m9bodies[t.Choose(len(m9bodies))], "<p>"+m9subjects[t.Choose(len(m9subjects))]+"</p>\r\n"
		m.parts = []string{strings.TrimSuffix(p1, "\r\n"), strings.TrimSuffix(p2, "\r\n")}
		add("MIME-Version", "1.0")
		add("Content-Type", "multipart/mixed; boundary=BND")
		body = "--BND\r\nContent-Type: text/plain\r\n\r\n" + m.parts[0] + "\r\n--BND\r\nContent-Type: text/html\r\n\r\n" + m.parts[1] + "\r\n--BND--\r\n"
	} else {
		add("Content-Type", "text/plain")
		body = m9bodies[t.Choose(len(m9bodies))]
	}
	var sb strings.Builder
	for _, f := range m.fields {
		sb.WriteString(f[0] + ": " + f[1] + "\r\n")
	}
	sb.WriteString("\r\n")
	m.hdrEnd = sb.Len()
	sb.WriteString(body)
	m.raw = sb.String()
	zones := []int{0, 3600 * 2, -5 * 3600, 13 * 3600}
	m.internal = time.Date(2021+t.Choose(3), time.Month(1+t.Choose(12)), 1+t.Choose(28), []int{0, 1, 12, 22, 23}[t.Choose(5)], 15, 0, 0, time.FixedZone("", zones[t.Choose(4)]))
	return m
}

func (m *m9msg) header(name string) (string, bool) {
	for _, f := range m.fields {
		if strings.EqualFold(f[0], name) {
			return f[1], true
		}
	}
	return "", false
}

// section returns the bytes of BODY[spec] (ok=false: the model does not predict this section).
func (m *m9msg) section(spec string) (string, bool) {
	up := strings.ToUpper(spec)
	switch {
	case up == "":
		return m.raw, true
	case up == "HEADER":
		return m.raw[:m.hdrEnd], true
	case up == "TEXT":
		return m.raw[m.hdrEnd:], true
	case strings.HasPrefix(up, "HEADER.FIELDS.NOT ("), strings.HasPrefix(up, "HEADER.FIELDS ("):
		not := strings.HasPrefix(up, "HEADER.FIELDS.NOT")
		list := strings.Fields(strings.Trim(spec[strings.IndexByte(spec, '('):], "()"))
		var sb strings.Builder
		for _, f := range m.fields {
			in := false
			for _, want := range list {
				if strings.EqualFold(strings.Trim(want, `"`), f[0]) {
					in = true
				}
			}
			if in != not {
				sb.WriteString(f[0] + ": " + f[1] + "\r\n")
			}
		}
		sb.WriteString("\r\n")
		return sb.String(), true
	case up == "1" || up == "2":
		n := int(up[0] - '1')
		if m.parts != nil {
			return m.parts[n], true
		}
		if n == 0 {
			return m.raw[m.hdrEnd:], true // RFC 9051: every message has at least one part number
		}
		return "", true
	}
	return "", false
}

// --- reference model ----------------------------------------------------------------------------

type m9box struct {
	name        string
	uidValidity uint32 // learned
	msgs        []*m9msg
	maxUID      uint32
	subscribed  bool
	uidNextSeen uint32
}

type m9model struct {
	boxes     map[string]*m9box
	oldValid  map[string][]uint32 // UIDVALIDITY values a name has had
	nextMsgID int
}

type m9sess struct {
	p        *rawPeer
	selected string
	readOnly bool
	seen     int
	// script: command kinds forced for this session's next steps ("select:<name>" selects that mailbox)
	script []string
}

func (mo *m9model) names() []string {
	var l []string
	for n := range mo.boxes {
		l = append(l, n)
	}
	sort.Strings(l)
	return l
}

func listRegexp(pattern string) *regexp.Regexp {
	var sb strings.Builder
	sb.WriteString("^")
	for _, c := range pattern {
		switch c {
		case '*':
			sb.WriteString(".*")
		case '%':
			sb.WriteString("[^/]*")
		default:
			sb.WriteString(regexp.QuoteMeta(string(c)))
		}
	}
	sb.WriteString("$")
	return regexp.MustCompile(sb.String())
}

// --- search keys --------------------------------------------------------------------------------

type skey struct {
	text string
	eval func(m *m9msg, seq int) bool
}

func dayOf(t time.Time) time.Time {
	return time.Date(t.Year(), t.Month(), t.Day(), 0, 0, 0, 0, time.UTC) // the date as written, disregarding time and zone
}

func containsFold(hay, needle string) bool {
	return strings.Contains(strings.ToLower(hay), strings.ToLower(needle))
}

func genSearchKey(t *simrt.Tape, depth int, msgs []*m9msg, maxUID uint32) skey {
	// a date near one of the mailbox's messages (so that day boundaries and zones matter), or a fixed one
	pickDate := func(sent bool, fixed []time.Time) time.Time {
		d := fixed[t.Choose(len(fixed))]
		if len(msgs) > 0 && t.Choose(4) != 0 {
			m := msgs[t.Choose(len(msgs))]
			base := m.internal
			if sent {
				base = m.date
			}
			if !base.IsZero() {
				d = dayOf(base).AddDate(0, 0, t.Choose(3)-1)
			}
		}
		return d
	}
	flag := func(name string, want bool) skey {
		return skey{text: "", eval: func(m *m9msg, seq int) bool { return m.flags[strings.ToLower(name)] == want }}
	}
	dates := []time.Time{time.Date(2021, 6, 15, 0, 0, 0, 0, time.UTC), time.Date(2022, 1, 1, 0, 0, 0, 0, time.UTC), time.Date(2023, 12, 28, 0, 0, 0, 0, time.UTC), time.Date(2020, 3, 1, 0, 0, 0, 0, time.UTC)}
	dk := func(sent bool) skey {
		d := pickDate(sent, dates)
		kind := t.Choose(3)
		pfx := ""
		if sent {
			pfx = "SENT"
		}
		txt := pfx + []string{"BEFORE", "ON", "SINCE"}[kind] + " " + d.Format("2-Jan-2006")
		return skey{txt, func(m *m9msg, seq int) bool {
			base := m.internal
			if sent {
				if !m.hasDate {
					return false
				}
				base = m.date
			}
			md := dayOf(base)
			switch kind {
			case 0:
				return md.Before(d)
			case 1:
				return md.Equal(d)
			}
			return !md.Before(d)
		}}
	}
	switch t.Choose(24) {
	case 22, 23:
		// two keys of one family with their own bounds: the conjunction keeps both
		var a, b skey
		switch t.Choose(4) {
		case 0:
			a, b = dk(true), dk(true)
		case 1:
			a, b = dk(false), dk(false)
		case 2:
			n1, n2 := []int{0, 60, 150, 300}[t.Choose(4)], []int{1, 100, 200, 400}[t.Choose(4)]
			a = skey{fmt.Sprintf("LARGER %d", n1), func(m *m9msg, seq int) bool { return len(m.raw) > n1 }}
			b = skey{fmt.Sprintf("LARGER %d", n2), func(m *m9msg, seq int) bool { return len(m.raw) > n2 }}
		default:
			n1, n2 := []int{60, 150, 300, 100000}[t.Choose(4)], []int{100, 200, 400, 5000}[t.Choose(4)]
			a = skey{fmt.Sprintf("SMALLER %d", n1), func(m *m9msg, seq int) bool { return len(m.raw) < n1 }}
			b = skey{fmt.Sprintf("SMALLER %d", n2), func(m *m9msg, seq int) bool { return len(m.raw) < n2 }}
		}
		// (parenthesised: one search-key, also as an operand of OR / NOT)
		return skey{"(" + a.text + " " + b.text + ")", func(m *m9msg, seq int) bool { return a.eval(m, seq) && b.eval(m, seq) }}
	case 0:
		switch t.Choose(5) {
		case 0: // the backend has no \Recent flag: no message is recent
			return skey{"RECENT", func(m *m9msg, seq int) bool { return false }}
		case 1:
			return skey{"NEW", func(m *m9msg, seq int) bool { return false }}
		case 2:
			return skey{"OLD", func(m *m9msg, seq int) bool { return true }}
		}
		return skey{"ALL", func(m *m9msg, seq int) bool { return true }}
	case 1:
		names := [][2]string{{"SEEN", `\seen`}, {"DELETED", `\deleted`}, {"FLAGGED", `\flagged`}, {"ANSWERED", `\answered`}, {"DRAFT", `\draft`}}
		n := names[t.Choose(len(names))]
		k := flag(n[1], true)
		k.text = n[0]
		return k
	case 2:
		names := [][2]string{{"UNSEEN", `\seen`}, {"UNDELETED", `\deleted`}, {"UNFLAGGED", `\flagged`}, {"UNANSWERED", `\answered`}}
		n := names[t.Choose(len(names))]
		k := flag(n[1], false)
		k.text = n[0]
		return k
	case 3:
		kw := []string{"custom", "Work", "$Forwarded"}[t.Choose(3)]
		k := flag(kw, true)
		k.text = "KEYWORD " + kw
		return k
	case 4:
		kw := []string{"custom", "WORK"}[t.Choose(2)]
		k := flag(kw, false)
		k.text = "UNKEYWORD " + kw
		return k
	case 5, 6:
		n := []int{0, 1, 60, 150, 300, 100000}[t.Choose(6)]
		return skey{fmt.Sprintf("LARGER %d", n), func(m *m9msg, seq int) bool { return len(m.raw) > n }}
	case 7, 8:
		n := []int{1, 60, 150, 300, 100000}[t.Choose(5)]
		return skey{fmt.Sprintf("SMALLER %d", n), func(m *m9msg, seq int) bool { return len(m.raw) < n }}
	case 9:
		d := pickDate(false, dates)
		kind := t.Choose(3)
		txt := []string{"BEFORE", "ON", "SINCE"}[kind] + " " + d.Format("2-Jan-2006")
		return skey{txt, func(m *m9msg, seq int) bool {
			md := dayOf(m.internal)
			switch kind {
			case 0:
				return md.Before(d)
			case 1:
				return md.Equal(d)
			}
			return !md.Before(d)
		}}
	case 10:
		d := pickDate(true, dates)
		kind := t.Choose(3)
		txt := []string{"SENTBEFORE", "SENTON", "SENTSINCE"}[kind] + " " + d.Format("2-Jan-2006")
		return skey{txt, func(m *m9msg, seq int) bool {
			if !m.hasDate {
				return false
			}
			md := dayOf(m.date)
			switch kind {
			case 0:
				return md.Before(d)
			case 1:
				return md.Equal(d)
			}
			return !md.Before(d)
		}}
	case 11:
		s := []string{"hello", "Meeting", "x", "trip"}[t.Choose(4)]
		return skey{`SUBJECT "` + s + `"`, func(m *m9msg, seq int) bool { v, _ := m.header("Subject"); return containsFold(v, s) }}
	case 12:
		s := []string{"alice", "BOB", "example.com"}[t.Choose(3)]
		f := []string{"FROM", "TO"}[t.Choose(2)]
		return skey{f + ` "` + s + `"`, func(m *m9msg, seq int) bool { v, _ := m.header(f); return containsFold(v, s) }}
	case 13:
		h := []string{"X-Custom", "message-id", "Content-Type", "Received", "comments"}[t.Choose(5)]
		s := []string{"", "needle", "multipart", "m1", "origin.sender", "alpha", "second"}[t.Choose(7)]
		return skey{`HEADER ` + h + ` "` + s + `"`, func(m *m9msg, seq int) bool {
			// RFC 9051 6.4.4: a header field with the given name whose value contains the string — any occurrence
			for _, f := range m.fields {
				if strings.EqualFold(f[0], h) && containsFold(f[1], s) {
					return true
				}
			}
			return false
		}}
	case 14:
		s := []string{"needle", "quick", "hello", "line2"}[t.Choose(4)]
		return skey{`BODY "` + s + `"`, func(m *m9msg, seq int) bool { return containsFold(m.raw[m.hdrEnd:], s) }}
	case 15:
		s := []string{"needle", "example.org", "hello"}[t.Choose(3)]
		return skey{`TEXT "` + s + `"`, func(m *m9msg, seq int) bool { return containsFold(m.raw, s) }}
	case 16:
		lo := 1 + t.Choose(4)
		hi := lo + t.Choose(3)
		return skey{fmt.Sprintf("%d:%d", lo, hi), func(m *m9msg, seq int) bool { return seq >= lo && seq <= hi }}
	case 17:
		lo := uint32(1 + t.Choose(6))
		hi := lo + uint32(t.Choose(4))
		return skey{fmt.Sprintf("UID %d:%d", lo, hi), func(m *m9msg, seq int) bool { return m.uid >= lo && m.uid <= hi }}
	case 18, 19:
		if depth <= 0 {
			return skey{"ALL", func(m *m9msg, seq int) bool { return true }}
		}
		k := genSearchKey(t, depth-1, msgs, maxUID)
		return skey{"NOT " + k.text, func(m *m9msg, seq int) bool { return !k.eval(m, seq) }}
	default:
		if depth <= 0 {
			return skey{"ALL", func(m *m9msg, seq int) bool { return true }}
		}
		a, b := genSearchKey(t, depth-1, msgs, maxUID), genSearchKey(t, depth-1, msgs, maxUID)
		return skey{"OR " + a.text + " " + b.text, func(m *m9msg, seq int) bool { return a.eval(m, seq) || b.eval(m, seq) }}
	}
}

// --- the run ------------------------------------------------------------------------------------

func runC09(r *R) {
	t := r.P
	nsess := 1 + t.Choose(2)
	capsVariant := t.Choose(3)
	nsteps := 3 + t.Choose(38)
	planTape := t // all generation happens lazily during the run, from the plan tape, by the single driver task
	cfg := r.SchedConfig()
	compared := 0
	var log *logBuf
	r.Sim(cfg, func() {
		caps := defaultCaps([]int{0, 2, 3}[capsVariant])
		env := newMemEnv(r, memOpts{caps: caps, mailboxes: map[string]int{"INBOX": 0}, insecureAuth: true})
		log = env.log
		done := make(chan struct{})
		simrt.GoTask("driver", func() {
			defer close(done)
			mo := &m9model{boxes: map[string]*m9box{"INBOX": {name: "INBOX"}}, oldValid: map[string][]uint32{}}
			tagN := 0
			tag := func() string { tagN++; return fmt.Sprintf("z%d", tagN) }
			var ss []*m9sess
			for i := 0; i < nsess; i++ {
				cc := env.Connect(fmt.Sprintf("peer%d", i))
				p := newRawPeer(r, fmt.Sprintf("peer%d", i), cc)
				p.timeout = 2 * time.Minute
				if !p.waitGreeting() {
					return
				}
				p.run([]rawCmd{textCmd(tag(), `LOGIN "user" "pass"`)})
				ss = append(ss, &m9sess{p: p, seen: len(p.resps)})
			}
			d := &c09driver{r: r, t: planTape, mo: mo, ss: ss, tag: tag}
			for step := 0; step < nsteps && len(r.tlViol()) == 0; step++ {
				s := ss[planTape.Choose(nsess)]
				if !d.step(s) {
					break
				}
				compared++
			}
			for _, s := range ss {
				s.p.conn.Close()
			}
		})
		waitOrTimeout(done, 24*time.Hour)
		env.Shutdown()
	})
	if r.Res.Infra != "" {
		return
	}
	r.Nontrivial = compared >= 5
	r.CheckLiveness(true)
	for _, p := range log.panics() {
		r.Violate("server-panic", panicLogClass(p), "%s", clipStr(p, 2500))
	}
}

// tlViol returns the violations recorded so far by the calling task.
func (r *R) tlViol() []Violation {
	if l := r.tl(); l != nil {
		return l.viol
	}
	return r.viol
}

type c09driver struct {
	r   *R
	t   *simrt.Tape
	mo  *m9model
	ss  []*m9sess
	tag func() string
}

var c09names = []string{"INBOX", "Work", "Work/Sub", "Archive", "a%b", "Tmp"}

func (d *c09driver) selectedBySomeone(name string) bool {
	for _, s := range d.ss {
		if s.selected == name {
			return true
		}
	}
	return false
}

// exec sends one command and returns the responses that arrived for it.
func (d *c09driver) exec(s *m9sess, c rawCmd) (*cmdOutcome, []Resp) {
	from := len(s.p.resps)
	s.p.run([]rawCmd{c})
	o := s.p.outcomes[len(s.p.outcomes)-1]
	var rs []Resp
	for i := from; i < len(s.p.resps); i++ {
		rs = append(rs, s.p.resps[i])
	}
	d.r.Tracef("%s: %s -> %s", s.p.name, describeCmd(&c), o.describe())
	return o, rs
}

func (d *c09driver) fail(class, format string, args ...interface{}) bool {
	d.r.Violate("model-mismatch", class, format, args...)
	return false
}

func (d *c09driver) expectStatus(o *cmdOutcome, line string, wantOK bool) bool {
	if o.Reply == nil {
		return d.fail("no-reply", "%q: no tagged reply (closed=%v)", line, o.Closed)
	}
	gotOK := o.Reply.Name == "OK"
	if gotOK != wantOK {
		want := "NO/BAD"
		if wantOK {
			want = "OK"
		}
		return d.fail("status:"+strings.Fields(line)[0], "%q: the model predicts %s but the server answered %s %s", line, want, o.Reply.Name, o.Reply.Text)
	}
	return true
}

func (d *c09driver) step(s *m9sess) bool {
	t := d.t
	mo := d.mo
	box := mo.boxes[s.selected]
	// choose a command
	var choices []string
	if box == nil {
		choices = []string{"select", "append", "create", "list", "status", "delete", "rename", "subscribe", "select", "append", "select", "append"}
	} else {
		choices = []string{"search", "fetch", "store", "append", "expunge", "copy", "move", "uidexpunge", "close", "create", "delete", "rename", "subscribe", "list", "status", "select",
			"search", "fetch", "store", "search", "fetch", "store", "append", "expunge", "copy", "move", "append", "store"}
	}
	kind := choices[t.Choose(len(choices))]
	name := c09names[t.Choose(len(c09names))]
	forced := ""
	if len(s.script) > 0 {
		forced, s.script = s.script[0], s.script[1:]
		if box == nil && !strings.HasPrefix(forced, "select:") {
			forced, s.script = "", nil
		}
	}
	if forced != "" {
		kind = forced
	}
	if (kind == "select" || kind == "append" || kind == "status") && t.Choose(2) == 0 {
		// favour mailboxes that exist (and the selected one, so that it fills up)
		existing := mo.names()
		name = existing[t.Choose(len(existing))]
		if box != nil && kind == "append" && t.Choose(2) == 0 {
			name = box.name
		}
	}
	if strings.HasPrefix(forced, "select:") {
		kind, name = "select", strings.TrimPrefix(forced, "select:")
	}
	switch kind {
	case "create":
		line := "CREATE " + quote(name)
		if t.Choose(4) == 0 {
			// RFC 9051 6.3.4: a trailing hierarchy separator only declares the intent to create children;
			// a server that does not need the declaration ignores it: the mailbox meant is still `name`
			line = "CREATE " + quote(name+"/")
			d.r.Probe("create-with-trailing-delimiter")
		}
		o, _ := d.exec(s, textCmd(d.tag(), line))
		_, exists := mo.boxes[name]
		if !d.expectStatus(o, line, !exists) {
			return false
		}
		if !exists {
			mo.boxes[name] = &m9box{name: name}
		}
	case "delete":
		if name == "INBOX" || d.selectedBySomeone(name) {
			return true
		}
		line := "DELETE " + quote(name)
		o, _ := d.exec(s, textCmd(d.tag(), line))
		b, exists := mo.boxes[name]
		if !d.expectStatus(o, line, exists) {
			return false
		}
		if exists {
			if b.uidValidity != 0 {
				mo.oldValid[name] = append(mo.oldValid[name], b.uidValidity)
			}
			delete(mo.boxes, name)
		}
	case "rename":
		to := c09names[t.Choose(len(c09names))]
		if name == "INBOX" || to == "INBOX" || d.selectedBySomeone(name) || name == to {
			return true
		}
		line := "RENAME " + quote(name) + " " + quote(to)
		o, _ := d.exec(s, textCmd(d.tag(), line))
		b, exists := mo.boxes[name]
		_, toExists := mo.boxes[to]
		if !d.expectStatus(o, line, exists && !toExists) {
			return false
		}
		if exists && !toExists {
			delete(mo.boxes, name)
			b.name = to
			mo.boxes[to] = b
		}
	case "subscribe":
		verb := []string{"SUBSCRIBE", "UNSUBSCRIBE"}[t.Choose(2)]
		line := verb + " " + quote(name)
		o, _ := d.exec(s, textCmd(d.tag(), line))
		b, exists := mo.boxes[name]
		if !d.expectStatus(o, line, exists) {
			return false
		}
		if exists {
			b.subscribed = verb == "SUBSCRIBE"
		}
	case "list":
		if t.Choose(12) == 0 {
			// the hierarchy-delimiter query: answered by one LIST response with an empty name; what matters here is
			// that it completes and leaves the connection (and the user's other sessions) usable
			line := `LIST "" ""`
			o, _ := d.exec(s, textCmd(d.tag(), line))
			d.r.Probe("list-delimiter-query")
			return d.expectStatus(o, line, true)
		}
		pat := []string{"*", "%", "Work*", "Work/%", "%/%", "*b", "a%b", "INBOX", "I*X", "W%k", "*/*", "A*e", "%o%", "Work/Sub", "T*p*"}[t.Choose(15)]
		verb := "LIST"
		lsub := t.Choose(5) == 0
		if lsub {
			verb = "LSUB"
		}
		line := verb + ` "" ` + quote(pat)
		o, rs := d.exec(s, textCmd(d.tag(), line))
		if !d.expectStatus(o, line, true) {
			return false
		}
		re := listRegexp(pat)
		want := map[string]bool{}
		for _, n := range mo.names() {
			match := re.MatchString(n)
			if match && (!lsub || mo.boxes[n].subscribed) {
				want[n] = true
			}
		}
		got := map[string]bool{}
		for _, rp := range rs {
			if rp.Tag == "*" && rp.Name == verb && len(rp.Toks) >= 3 {
				attrs := rp.Toks[0].String()
				if strings.Contains(strings.ToLower(attrs), `\nonexistent`) {
					continue
				}
				got[rp.Toks[2].S] = true
			}
		}
		if len(want) > 0 && len(want) < len(mo.boxes) {
			d.r.Probe("list-proper-subset")
		}
		if fmt.Sprint(sortedKeys(want)) != fmt.Sprint(sortedKeys(got)) {
			return d.fail("list", "%s: mailboxes %v exist, the wildcard semantics select %v, the server listed %v", line, mo.names(), sortedKeys(want), sortedKeys(got))
		}
	case "status":
		line := "STATUS " + quote(name) + " (MESSAGES UIDNEXT UIDVALIDITY UNSEEN)"
		o, rs := d.exec(s, textCmd(d.tag(), line))
		b, exists := mo.boxes[name]
		if !d.expectStatus(o, line, exists) {
			return false
		}
		if exists {
			for _, rp := range rs {
				if rp.Tag == "*" && rp.Name == "STATUS" && len(rp.Toks) == 2 {
					kv := tokMap(rp.Toks[1])
					unseen := 0
					for _, m := range b.msgs {
						if !m.flags[`\seen`] {
							unseen++
						}
					}
					if kv["MESSAGES"] != fmt.Sprint(len(b.msgs)) || kv["UNSEEN"] != fmt.Sprint(unseen) {
						return d.fail("status-counters", "%s: the model has %d messages, %d unseen; the server reports %v", line, len(b.msgs), unseen, kv)
					}
					if !d.checkValidityAndNext(b, kv["UIDVALIDITY"], kv["UIDNEXT"], line) {
						return false
					}
				}
			}
		}
	case "append":
		m := genM9(t, mo.nextMsgID)
		mo.nextMsgID++
		var fl []string
		for i, n := 0, t.Choose(3); i < n; i++ {
			fl = append(fl, []string{`\Seen`, `\DELETED`, `\flagged`, "custom", "Work", `\Answered`}[t.Choose(6)])
		}
		line := "APPEND " + quote(name) + " "
		if len(fl) > 0 {
			line += "(" + strings.Join(fl, " ") + ") "
		}
		withDate := t.Choose(4) != 0
		if withDate {
			line += `"` + m.internal.Format("02-Jan-2006 15:04:05 -0700") + `" `
		}
		c := textCmd(d.tag(), line)
		c.Parts = cat(line, rawPart{IsLit: true, Lit: []byte(m.raw), Sync: t.Choose(2) == 0})
		c.Name = "APPEND"
		o, _ := d.exec(s, c)
		b, exists := mo.boxes[name]
		if !d.expectStatus(o, line+"{literal}", exists) {
			return false
		}
		if exists {
			for _, f := range fl {
				m.flags[strings.ToLower(f)] = true
			}
			if !withDate {
				m.internal = time.Time{} // server time: not predicted
			}
			if o.Reply.Code == "APPENDUID" {
				f := strings.Fields(o.Reply.CodeArg)
				if len(f) == 2 {
					u, _ := strconv.ParseUint(f[1], 10, 32)
					if !d.newUID(b, uint32(u), f[0], "APPENDUID") {
						return false
					}
					m.uid = uint32(u)
				}
			}
			b.msgs = append(b.msgs, m)
			if m.uid == 0 {
				b.msgs = b.msgs[:len(b.msgs)-1]
				return d.fail("appenduid-missing", "%s: no APPENDUID response code", line)
			}
		}
	case "select":
		verb := []string{"SELECT", "EXAMINE"}[t.Choose(2)]
		line := verb + " " + quote(name)
		o, rs := d.exec(s, textCmd(d.tag(), line))
		b, exists := mo.boxes[name]
		if !d.expectStatus(o, line, exists) {
			return false
		}
		s.selected = ""
		if exists {
			s.selected, s.readOnly = name, verb == "EXAMINE"
			cnt, valid, next := "", "", ""
			for _, rp := range rs {
				if rp.Tag == "*" && rp.HasNum && rp.Name == "EXISTS" {
					cnt = fmt.Sprint(rp.Num)
				}
				if rp.Tag == "*" && rp.Code == "UIDVALIDITY" {
					valid = rp.CodeArg
				}
				if rp.Tag == "*" && rp.Code == "UIDNEXT" {
					next = rp.CodeArg
				}
			}
			if cnt != fmt.Sprint(len(b.msgs)) {
				return d.fail("select-exists", "%s: the model has %d messages, the server announced %q", line, len(b.msgs), cnt)
			}
			if !d.checkValidityAndNext(b, valid, next, line) {
				return false
			}
		}
	case "close":
		line := []string{"CLOSE", "UNSELECT"}[t.Choose(2)]
		o, _ := d.exec(s, textCmd(d.tag(), line))
		if !d.expectStatus(o, line, true) {
			return false
		}
		if line == "CLOSE" && !s.readOnly {
			d.expungeModel(box, nil)
		}
		s.selected = ""
	default:
		return d.selectedStep(s, box, kind)
	}
	return true
}

func quote(s string) string { return `"` + s + `"` }

func sortedKeys(m map[string]bool) []string {
	var l []string
	for k := range m {
		l = append(l, k)
	}
	sort.Strings(l)
	return l
}

func tokMap(t Tok) map[string]string {
	m := map[string]string{}
	for i := 0; i+1 < len(t.L); i += 2 {
		m[strings.ToUpper(t.L[i].S)] = t.L[i+1].S
	}
	return m
}

// newUID checks the UID laws for a UID the server just assigned in mailbox b.
func (d *c09driver) newUID(b *m9box, uid uint32, validity string, what string) bool {
	if uid == 0 || uid <= b.maxUID {
		return d.fail("uid-not-increasing", "%s assigned UID %d in %s although UID %d had already been assigned there: UIDs must strictly increase and never be reused", what, uid, b.name, b.maxUID)
	}
	if b.uidNextSeen != 0 && uid < b.uidNextSeen {
		return d.fail("uid-below-uidnext", "%s assigned UID %d in %s although UIDNEXT %d had been announced", what, uid, b.name, b.uidNextSeen)
	}
	b.maxUID = uid
	v, _ := strconv.ParseUint(validity, 10, 32)
	if b.uidValidity == 0 {
		b.uidValidity = uint32(v)
	} else if uint32(v) != b.uidValidity {
		return d.fail("uidvalidity-changed", "%s reports UIDVALIDITY %s for %s, previously %d", what, validity, b.name, b.uidValidity)
	}
	return true
}

func (d *c09driver) checkValidityAndNext(b *m9box, valid, next, line string) bool {
	if valid != "" {
		v, _ := strconv.ParseUint(valid, 10, 32)
		if b.uidValidity == 0 {
			b.uidValidity = uint32(v)
			for _, old := range d.mo.oldValid[b.name] {
				d.r.Probe("uidvalidity-after-recreate")
				if old == uint32(v) {
					return d.fail("uidvalidity-reused", "%s: mailbox %s was deleted and re-created but has the same UIDVALIDITY %d as before", line, b.name, v)
				}
			}
		} else if uint32(v) != b.uidValidity {
			return d.fail("uidvalidity-changed", "%s: UIDVALIDITY of %s is %s, previously %d", line, b.name, valid, b.uidValidity)
		}
	}
	if next != "" {
		n, _ := strconv.ParseUint(next, 10, 32)
		if uint32(n) <= b.maxUID {
			return d.fail("uidnext-too-small", "%s: UIDNEXT %s of %s is not above the highest assigned UID %d", line, next, b.name, b.maxUID)
		}
		if uint32(n) > b.uidNextSeen {
			b.uidNextSeen = uint32(n)
		}
	}
	return true
}

// expungeModel removes the \Deleted messages (restricted to uids if non-nil) and returns their sequence numbers as
// the server must report them (each relative to the list at the time it is reported, in ascending original order).
func (d *c09driver) expungeModel(b *m9box, only func(uint32) bool) []uint32 {
	var removedUIDs []uint32
	var keep []*m9msg
	for _, m := range b.msgs {
		if m.flags[`\deleted`] && (only == nil || only(m.uid)) {
			removedUIDs = append(removedUIDs, m.uid)
		} else {
			keep = append(keep, m)
		}
	}
	b.msgs = keep
	return removedUIDs
}

func parseSet(s string, max uint32) func(uint32) bool {
	type rg struct{ lo, hi uint32 }
	var rs []rg
	for _, part := range strings.Split(s, ",") {
		a, b := part, part
		if i := strings.IndexByte(part, ':'); i >= 0 {
			a, b = part[:i], part[i+1:]
		}
		conv := func(x string) uint32 {
			if x == "*" {
				return max
			}
			v, _ := strconv.ParseUint(x, 10, 32)
			return uint32(v)
		}
		lo, hi := conv(a), conv(b)
		if lo > hi {
			lo, hi = hi, lo
		}
		rs = append(rs, rg{lo, hi})
	}
	return func(n uint32) bool {
		for _, r := range rs {
			if n >= r.lo && n <= r.hi {
				return true
			}
		}
		return false
	}
}

// addressed returns the messages (with their sequence numbers) a number set addresses.
func addressed(b *m9box, set string, uid bool) map[int]*m9msg {
	out := map[int]*m9msg{}
	if len(b.msgs) == 0 {
		return out
	}
	if uid {
		in := parseSet(set, b.msgs[len(b.msgs)-1].uid)
		for i, m := range b.msgs {
			if in(m.uid) {
				out[i+1] = m
			}
		}
	} else {
		in := parseSet(set, uint32(len(b.msgs)))
		for i, m := range b.msgs {
			if in(uint32(i + 1)) {
				out[i+1] = m
			}
		}
	}
	return out
}

func (d *c09driver) genSet(b *m9box, uid bool) string {
	t := d.t
	n := uint32(len(b.msgs))
	if uid {
		n = b.maxUID
	}
	if n == 0 {
		n = 1
	}
	pick := func() string { return fmt.Sprint(1 + t.Choose(int(n)+1)) }
	switch t.Choose(7) {
	case 0:
		return pick()
	case 1:
		return "1:*"
	case 2:
		return "*"
	case 3:
		return pick() + ":" + pick()
	case 4:
		return pick() + ":*"
	case 5:
		return pick() + "," + pick()
	default:
		return "*:" + pick()
	}
}

func (d *c09driver) selectedStep(s *m9sess, b *m9box, kind string) bool {
	t := d.t
	mo := d.mo
	// never stale here: synchronise first (updates caused by the other session are C08's subject)
	d.exec(s, textCmd(d.tag(), "NOOP"))
	uid := t.Choose(2) == 0
	pfx := ""
	if uid {
		pfx = "UID "
	}
	switch kind {
	case "store":
		set := d.genSet(b, uid)
		op := t.Choose(3)
		silent := t.Choose(3) == 0
		var fl []string
		for i, n := 0, 1+t.Choose(2); i < n; i++ {
			fl = append(fl, []string{`\Seen`, `\deleted`, `\FLAGGED`, "Custom", "work", `\Draft`}[t.Choose(6)])
		}
		item := []string{"FLAGS", "+FLAGS", "-FLAGS"}[op]
		if silent {
			item += ".SILENT"
		}
		line := pfx + "STORE " + set + " " + item + " (" + strings.Join(fl, " ") + ")"
		o, rs := d.exec(s, textCmd(d.tag(), line))
		if o.Reply == nil {
			return d.fail("no-reply", "%q: no tagged reply (closed=%v)", line, o.Closed)
		}
		if !d.expectStatus(o, line, !s.readOnly) {
			return false
		}
		if s.readOnly { // no change to the permanent state is permitted after EXAMINE
			return true
		}
		target := addressed(b, set, uid)
		for _, m := range target {
			switch op {
			case 0:
				m.flags = map[string]bool{}
				for _, f := range fl {
					m.flags[strings.ToLower(f)] = true
				}
			case 1:
				for _, f := range fl {
					m.flags[strings.ToLower(f)] = true
				}
			case 2:
				for _, f := range fl {
					delete(m.flags, strings.ToLower(f))
				}
			}
		}
		// reported flags must be the model's flags; unaddressed messages must not be reported with wrong flags
		for _, rp := range rs {
			if rp.Tag == "*" && rp.HasNum && rp.Name == "FETCH" {
				if int(rp.Num) < 1 || int(rp.Num) > len(b.msgs) {
					return d.fail("store-fetch-range", "%s: FETCH for sequence number %d, the mailbox has %d messages", line, rp.Num, len(b.msgs))
				}
				if !d.checkFlags(b.msgs[rp.Num-1], rp, line) {
					return false
				}
			}
		}
		if !silent {
			for _, seq := range sortedSeqs(target) {
				found := false
				for _, rp := range rs {
					if rp.Tag == "*" && rp.HasNum && rp.Name == "FETCH" && int(rp.Num) == seq {
						found = true
					}
				}
				if !found {
					return d.fail("store-no-fetch", "%s: no FETCH FLAGS response for addressed message %d", line, seq)
				}
			}
		}
	case "expunge", "uidexpunge":
		line := "EXPUNGE"
		var only func(uint32) bool
		if kind == "uidexpunge" {
			set := d.genSet(b, true)
			line = "UID EXPUNGE " + set
			max := uint32(0)
			if len(b.msgs) > 0 {
				max = b.msgs[len(b.msgs)-1].uid
			}
			only = parseSet(set, max)
		}
		before := append([]*m9msg{}, b.msgs...)
		o, rs := d.exec(s, textCmd(d.tag(), line))
		if !d.expectStatus(o, line, !s.readOnly) {
			return false
		}
		if s.readOnly {
			return true
		}
		removed := d.expungeModel(b, only)
		// replay the EXPUNGE responses on the old list
		cur := before
		var gone []uint32
		for _, rp := range rs {
			if rp.Tag == "*" && rp.HasNum && rp.Name == "EXPUNGE" {
				if rp.Num == 0 || int(rp.Num) > len(cur) {
					return d.fail("expunge-range", "%s: '* %d EXPUNGE' with %d messages left", line, rp.Num, len(cur))
				}
				gone = append(gone, cur[rp.Num-1].uid)
				cur = append(cur[:rp.Num-1:rp.Num-1], cur[rp.Num:]...)
			}
		}
		sort.Slice(gone, func(i, j int) bool { return gone[i] < gone[j] })
		if len(removed) > 0 {
			d.r.Probe("expunge-removed")
			if len(removed) < len(before) {
				d.r.Probe("expunge-proper-subset")
			}
		}
		if fmt.Sprint(gone) != fmt.Sprint(removed) {
			return d.fail("expunge-set", "%s: the messages that are \\Deleted (and addressed) have UIDs %v, the server expunged UIDs %v", line, removed, gone)
		}
	case "copy", "move":
		set := d.genSet(b, uid)
		dest := c09names[t.Choose(len(c09names))]
		if t.Choose(2) == 0 {
			existing := mo.names() // favour a destination that exists
			dest = existing[t.Choose(len(existing))]
		}
		verb := "COPY"
		if kind == "move" {
			verb = "MOVE"
		}
		line := pfx + verb + " " + set + " " + quote(dest)
		before := append([]*m9msg{}, b.msgs...)
		o, rs := d.exec(s, textCmd(d.tag(), line))
		db, exists := mo.boxes[dest]
		if o.Reply == nil {
			return d.fail("no-reply", "%q: no tagged reply (closed=%v)", line, o.Closed)
		}
		if kind == "move" && s.readOnly {
			return d.expectStatus(o, line, false)
		}
		if !d.expectStatus(o, line, exists && dest != s.selected) {
			return false
		}
		if !exists || dest == s.selected {
			return true
		}
		target := addressed(b, set, uid)
		var seqs []int
		for q := range target {
			seqs = append(seqs, q)
		}
		sort.Ints(seqs)
		// COPYUID: tagged for COPY, untagged OK for MOVE
		code := o.Reply
		if kind == "move" {
			for i := range rs {
				if rs[i].Tag == "*" && rs[i].Code == "COPYUID" {
					code = &rs[i]
				}
			}
		}
		if len(seqs) == 0 {
			return true
		}
		if code.Code != "COPYUID" {
			return d.fail("copyuid-missing", "%s: %d messages were addressed but no COPYUID response code was sent", line, len(seqs))
		}
		f := strings.Fields(code.CodeArg)
		if len(f) != 3 {
			return d.fail("copyuid-syntax", "%s: COPYUID %q", line, code.CodeArg)
		}
		srcU, dstU := expandSet(f[1]), expandSet(f[2])
		if len(srcU) != len(seqs) || len(dstU) != len(seqs) {
			return d.fail("copyuid-count", "%s: %d messages addressed (UIDs %v) but COPYUID names %d source and %d destination UIDs (%s)", line, len(seqs), uidsOf(target, seqs), len(srcU), len(dstU), code.CodeArg)
		}
		for i, q := range seqs {
			src := target[q]
			if srcU[i] != src.uid {
				return d.fail("copyuid-source", "%s: COPYUID source UIDs %v do not name the addressed messages %v", line, srcU, uidsOf(target, seqs))
			}
			if !d.newUID(db, dstU[i], f[0], "COPYUID") {
				return false
			}
			cp := *src
			cp.uid = dstU[i]
			cp.flags = map[string]bool{}
			for k := range src.flags {
				cp.flags[k] = true
			}
			db.msgs = append(db.msgs, &cp)
		}
		d.r.Probe(kind + "-done")
		if kind == "copy" && t.Choose(2) == 0 {
			// then change flags on this side and look at the other side: the copies are independent messages
			s.script = []string{"store", "select:" + dest, "fetch"}
		}
		if kind == "move" {
			var keep []*m9msg
			for i, m := range before {
				if _, ok := target[i+1]; !ok {
					keep = append(keep, m)
				}
			}
			b.msgs = keep
		}
	case "search":
		nkeys := 1 + t.Choose(3)
		var keys []skey
		var texts []string
		for i := 0; i < nkeys; i++ {
			k := genSearchKey(t, 2, b.msgs, b.maxUID)
			keys = append(keys, k)
			texts = append(texts, k.text)
		}
		ret := ""
		if t.Choose(4) == 0 {
			ret = []string{"RETURN (MIN MAX COUNT ALL) ", "RETURN (COUNT) ", "RETURN (MIN MAX) ", "RETURN () ", "RETURN (ALL) "}[t.Choose(5)]
		}
		line := pfx + "SEARCH " + ret + strings.Join(texts, " ")
		o, rs := d.exec(s, textCmd(d.tag(), line))
		if !d.expectStatus(o, line, true) {
			return false
		}
		var want []uint32
		for i, m := range b.msgs {
			ok := true
			for _, k := range keys {
				if !k.eval(m, i+1) {
					ok = false
				}
			}
			if ok {
				if uid {
					want = append(want, m.uid)
				} else {
					want = append(want, uint32(i+1))
				}
			}
		}
		var got []uint32
		es := map[string]string{}
		sawESearch := false
		for _, rp := range rs {
			if rp.Tag != "*" {
				continue
			}
			if rp.Name == "ESEARCH" {
				sawESearch = true
				for i := 0; i+1 < len(rp.Toks); i++ {
					switch k := strings.ToUpper(rp.Toks[i].S); k {
					case "MIN", "MAX", "COUNT", "ALL":
						es[k] = rp.Toks[i+1].S
					}
				}
			}
			if rp.Name == "SEARCH" {
				for _, tk := range rp.Toks {
					n, err := strconv.ParseUint(tk.S, 10, 32)
					if err == nil {
						got = append(got, uint32(n))
					}
				}
			}
			if rp.Name == "ESEARCH" {
				for i := 0; i+1 < len(rp.Toks); i++ {
					if strings.EqualFold(rp.Toks[i].S, "ALL") {
						got = append(got, expandSet(rp.Toks[i+1].S)...)
					}
				}
			}
		}
		sort.Slice(got, func(i, j int) bool { return got[i] < got[j] })
		// dates of messages appended without an explicit date are not predicted
		for _, m := range b.msgs {
			if m.internal.IsZero() && (strings.Contains(line, "BEFORE") || strings.Contains(line, " ON ") || strings.Contains(line, "SINCE")) && !strings.Contains(line, "SENT") {
				return true
			}
			if m.internal.IsZero() && regexp.MustCompile(`(^| )(BEFORE|ON|SINCE) `).MatchString(line) {
				return true
			}
		}
		if ret != "" {
			// RFC 4731: MIN / MAX / COUNT / ALL of the result; MIN, MAX and ALL are omitted when nothing matches
			if !sawESearch {
				return d.fail("esearch-missing", "%s: no ESEARCH response", line)
			}
			wantES := map[string]string{}
			opts := ret
			if ret == "RETURN () " {
				opts = "ALL"
			}
			if strings.Contains(opts, "COUNT") {
				wantES["COUNT"] = fmt.Sprint(len(want))
			}
			if len(want) > 0 {
				if strings.Contains(opts, "MIN") {
					wantES["MIN"] = fmt.Sprint(want[0])
				}
				if strings.Contains(opts, "MAX") {
					wantES["MAX"] = fmt.Sprint(want[len(want)-1])
				}
			}
			for _, k := range []string{"COUNT", "MIN", "MAX"} {
				if es[k] != wantES[k] {
					return d.fail("esearch", "%s: the model selects %v, so %s must be %q; the server sent %q; mailbox: %s", line, want, k, wantES[k], es[k], d.describeBox(b))
				}
			}
			if !strings.Contains(opts, "ALL") {
				d.r.Probe("esearch-compared")
				return true
			}
			if (len(want) > 0) != (es["ALL"] != "") {
				return d.fail("esearch", "%s: the model selects %v; the server sent ALL %q", line, want, es["ALL"])
			}
		}
		if fmt.Sprint(got) != fmt.Sprint(want) {
			return d.fail("search", "%s: the model selects %v, the server returned %v; mailbox: %s", line, want, got, d.describeBox(b))
		}
		if len(want) > 0 && len(want) < len(b.msgs) {
			d.r.Probe("search-proper-subset")
		}
	case "fetch":
		set := d.genSet(b, uid)
		var items []string
		type secReq struct {
			spec       string
			off, size  int64
			hasPartial bool
		}
		marksSeen := false
		var secs []secReq
		for i, n := 0, 1+t.Choose(3); i < n; i++ {
			switch t.Choose(7) {
			case 0:
				items = append(items, "FLAGS")
			case 1:
				items = append(items, "UID")
			case 2:
				items = append(items, "RFC822.SIZE")
			case 3:
				items = append(items, "INTERNALDATE")
			default:
				spec := []string{"", "HEADER", "TEXT", "HEADER.FIELDS (Subject From)", "HEADER.FIELDS.NOT (To Date)", "1", "2", "HEADER.FIELDS (x-custom)", "HEADER.FIELDS (Received Comments)", "HEADER.FIELDS.NOT (received)"}[t.Choose(10)]
				sr := secReq{spec: spec}
				it := "BODY.PEEK[" + spec + "]"
				nonPeek := t.Choose(6) == 0
				if nonPeek {
					it = "BODY[" + spec + "]"
				}
				if t.Choose(2) == 0 {
					sr.hasPartial = true
					sr.off = []int64{0, 1, 10, 100000, 1 << 31, 1<<63 - 1}[t.Choose(6)]
					sr.size = []int64{1, 5, 100000, 1 << 31, 1<<63 - 1}[t.Choose(5)]
					it += fmt.Sprintf("<%d.%d>", sr.off, sr.size)
				}
				// the response names a partial by its offset only: never ask twice for the same section and offset
				dup := false
				for _, x := range secs {
					if x.spec == sr.spec && x.hasPartial == sr.hasPartial && x.off == sr.off {
						dup = true
					}
				}
				if !dup {
					marksSeen = marksSeen || nonPeek
					items = append(items, it)
					secs = append(secs, sr)
				}
			}
		}
		line := pfx + "FETCH " + set + " (" + strings.Join(items, " ") + ")"
		o, rs := d.exec(s, textCmd(d.tag(), line))
		if !d.expectStatus(o, line, true) {
			return false
		}
		target := addressed(b, set, uid)
		if marksSeen && !s.readOnly {
			for _, q := range sortedSeqs(target) {
				target[q].flags[`\seen`] = true
			}
		}
		seenSeq := map[int]bool{}
		for _, rp := range rs {
			if rp.Tag != "*" || !rp.HasNum || rp.Name != "FETCH" {
				continue
			}
			seq := int(rp.Num)
			m, ok := target[seq]
			if !ok {
				return d.fail("fetch-unaddressed", "%s: FETCH response for sequence number %d, which the set does not address (mailbox has %d messages)", line, seq, len(b.msgs))
			}
			seenSeq[seq] = true
			if len(rp.Toks) != 1 {
				continue
			}
			l := rp.Toks[0].L
			for i := 0; i+1 < len(l); i += 2 {
				key, val := l[i].S, l[i+1]
				up := strings.ToUpper(key)
				switch {
				case up == "UID":
					if val.S != fmt.Sprint(m.uid) {
						return d.fail("fetch-uid", "%s: message %d has UID %d, the server says %s", line, seq, m.uid, val.S)
					}
				case up == "RFC822.SIZE":
					if val.S != fmt.Sprint(len(m.raw)) {
						return d.fail("fetch-size", "%s: message %d has %d bytes, the server says %s", line, seq, len(m.raw), val.S)
					}
				case up == "FLAGS":
					// (a FETCH that sets \Seen may report the flags from before or after that change)
					if !(marksSeen && !s.readOnly) && !d.checkFlags(m, rp, line) {
						return false
					}
				case up == "INTERNALDATE":
					if !m.internal.IsZero() {
						got, err := time.Parse("_2-Jan-2006 15:04:05 -0700", val.S)
						if err != nil || !got.Equal(m.internal) {
							return d.fail("fetch-internaldate", "%s: message %d was appended with date %s, the server says %q", line, seq, m.internal.Format(time.RFC3339), val.S)
						}
					}
				case strings.HasPrefix(up, "BODY["):
					end := strings.LastIndexByte(key, ']')
					spec := key[5:end]
					rest := key[end+1:]
					for _, sr := range secs {
						if !strings.EqualFold(strings.Join(strings.Fields(sr.spec), " "), strings.Join(strings.Fields(strings.ReplaceAll(spec, `"`, "")), " ")) {
							continue
						}
						full, ok := m.section(sr.spec)
						if !ok {
							continue
						}
						want := full
						wantRest := ""
						if sr.hasPartial {
							wantRest = fmt.Sprintf("<%d>", sr.off)
							if sr.off >= int64(len(full)) {
								want = ""
							} else {
								e := int64(len(full))
								if sr.size < e-sr.off {
									e = sr.off + sr.size
								}
								want = full[sr.off:e]
							}
						}
						if rest != wantRest && !(sr.hasPartial && rest == "") {
							continue
						}
						if sr.hasPartial && rest == "" {
							continue
						}
						got := val.S
						if val.IsNIL() {
							got = ""
						}
						if sr.hasPartial {
							d.r.Probe("partial-compared")
							if sr.off+sr.size < 0 {
								d.r.Probe("partial-overflowing")
							}
						} else {
							d.r.Probe("section-compared")
						}
						if got != want {
							return d.fail("fetch-section", "%s: message %d section BODY[%s]%s: the model predicts %q, the server sent %q", line, seq, sr.spec, wantRest, clipStr(want, 200), clipStr(got, 200))
						}
					}
				}
			}
		}
		for _, seq := range sortedSeqs(target) {
			if !seenSeq[seq] {
				return d.fail("fetch-missing", "%s: no FETCH response for addressed message %d (UID %d)", line, seq, target[seq].uid)
			}
		}
	}
	return true
}

func sortedSeqs(target map[int]*m9msg) []int {
	var l []int
	for q := range target {
		l = append(l, q)
	}
	sort.Ints(l)
	return l
}

func uidsOf(target map[int]*m9msg, seqs []int) []uint32 {
	var l []uint32
	for _, q := range seqs {
		l = append(l, target[q].uid)
	}
	return l
}

func expandSet(s string) []uint32 {
	var out []uint32
	for _, part := range strings.Split(s, ",") {
		a, b := part, part
		if i := strings.IndexByte(part, ':'); i >= 0 {
			a, b = part[:i], part[i+1:]
		}
		x, err1 := strconv.ParseUint(a, 10, 32)
		y, err2 := strconv.ParseUint(b, 10, 32)
		if err1 != nil || err2 != nil || y-x > 100000 {
			continue
		}
		if x > y {
			x, y = y, x
		}
		for v := x; v <= y; v++ {
			out = append(out, uint32(v))
		}
	}
	return out
}

func (d *c09driver) checkFlags(m *m9msg, rp Resp, line string) bool {
	if len(rp.Toks) != 1 {
		return true
	}
	l := rp.Toks[0].L
	for i := 0; i+1 < len(l); i += 2 {
		if strings.EqualFold(l[i].S, "FLAGS") {
			got := map[string]bool{}
			for _, f := range l[i+1].L {
				if strings.EqualFold(f.S, `\Recent`) {
					continue
				}
				got[strings.ToLower(f.S)] = true
			}
			if fmt.Sprint(sortedKeys(got)) != fmt.Sprint(sortedKeys(m.flags)) {
				return d.fail("flags", "%s: message with UID %d has flags %v in the model, the server reports %v", line, m.uid, sortedKeys(m.flags), sortedKeys(got))
			}
		}
	}
	return true
}

func (d *c09driver) describeBox(b *m9box) string {
	var sb strings.Builder
	for i, m := range b.msgs {
		subj, _ := m.header("Subject")
		fmt.Fprintf(&sb, "[%d uid=%d size=%d flags=%v internal=%s date=%s subj=%q] ", i+1, m.uid, len(m.raw), sortedKeys(m.flags), m.internal.Format("2006-01-02T15:04-0700"), m.date.Format("2006-01-02T15:04-0700"), subj)
	}
	return sb.String()
}
