package harness

import (
	"errors"
	"fmt"
	"strings"
	"time"

	"github.com/emersion/go-imap/v2"
	"github.com/emersion/go-imap/v2/imapclient"
	"verif.local/simrt"
)

// C12 — the client routes responses to the right command and mirrors protocol state.
// Pipelining and ordering rules of the scripted server: DESIGN.md Appendix C.

func init() {
	register(&Prop{
		ID:    "C12",
		Level: "exploration",
		Rule: "case = (capability set with or without LITERAL-, 1..4 rounds of 1..6 pipelined client commands chosen so that RFC 9051 5.5 allows pipelining them: NOOP, STATUS on distinct mailboxes, UID FETCH / UID STORE on disjoint UIDs, FETCH by sequence number (ordered class; its numbers overlap with the unsolicited FETCH data), CREATE/DELETE/SUBSCRIBE, NAMESPACE, UID SEARCH RETURN answered by ESEARCH with TAG, and ordered classes LIST, SEARCH, EXPUNGE, APPEND with accepted or refused literal; optionally a SELECT refused before LOGIN and a final SELECT answered by BYE and a closed connection; between rounds optionally a SELECT of another mailbox (accepted or refused, with or without [CLOSED]) and an IDLE that the server accepts (updates, DONE) or refuses with a tagged NO/BAD instead of the continuation request; a scripted server that answers the groups in any order the RFC permits (order kept inside an ambiguity class), interleaves unilateral EXISTS / EXPUNGE / FLAGS / PERMANENTFLAGS / FETCH anywhere, and assigns OK / NO / BAD with and without response codes), segmentation and schedule. " +
			"Oracle: reference interpretation of the exact transcript (per-tag status and data, mailbox summary, connection state). Non-trivial: at least one pipelined round was compared. Distinct: distinct event-log hashes.",
		Components:   "real: imapclient.Client, internal/imapwire (woven); stub: conformant-but-adversarially-ordered scripted server (independent scanner on the command side), network, clock, scheduler",
		Assumptions:  []string{"the caller pipelines only what RFC 9051 5.5 allows (Appendix C)", "state and mailbox summary are compared after a NOOP round trip, i.e. when every earlier server line has been processed"},
		QuickRuns:    6000,
		ThoroughRuns: 200000,
		Run:          runC12,
	})
}

type c12cmd struct {
	Kind   string
	Class  string // ambiguity class ("" = freely reorderable)
	Arg    string
	UID    imap.UID
	Status string // OK NO BAD
	Code   string
	Text   string
	// data the server will send for this command
	N      uint32
	Flags  []imap.Flag
	Names  []string
	Nums   []uint32
	Set    string
	NoData bool // the server sends no untagged data for this (failing) command
	Refuse bool // APPEND: refuse the synchronising literal with this command's status (NO/BAD)
	// filled at run time
	tag   string
	wait  func() string // returns "" or a description of a data mismatch
	err   error
	done  bool
	model *c12model
}

// sentFor: the flag lists of the unsolicited FETCH responses sent for this command's message in its round.
func (c *c12cmd) sentFor() []string {
	if c.model == nil {
		return nil
	}
	return c.model.unsolFetch[c.N]
}

// (mailbox names are case-sensitive except INBOX: "alpha" and "Alpha" are two mailboxes)
var c12boxes = []string{"Alpha", "Bravo", "Charlie", "Delta", "Echo", "Foxtrot", "alpha", "BRAVO", "charlie"}

func genC12Round(t *simrt.Tape, syncLiterals bool) []*c12cmd {
	n := 1 + t.Choose(6)
	var cmds []*c12cmd
	usedBox, usedUID, usedSeq := map[int]bool{}, map[int]bool{}, map[int]bool{}
	hasNS := false
	for len(cmds) < n {
		c := &c12cmd{Status: "OK", Text: "done"}
		switch t.Choose(4) {
		case 0:
			c.Status = []string{"NO", "BAD"}[t.Choose(2)]
			c.Text = []string{"nope", "cannot do that", "x"}[t.Choose(3)]
			if t.Choose(2) == 0 {
				c.Code = []string{"NONEXISTENT", "CANNOT", "LIMIT", "ALREADYEXISTS"}[t.Choose(4)]
			}
		}
		switch t.Choose(15) {
		case 14:
			// FETCH by sequence number (ordered with the other sequence-number commands); the numbers overlap with the
			// server's unsolicited FETCH data on purpose
			n := 1 + t.Choose(5)
			if usedSeq[n] {
				continue
			}
			usedSeq[n] = true
			c.Kind, c.Class, c.N, c.Flags = "seqfetch", "seq", uint32(n), genFlagList(t)
		case 0:
			c.Kind = "noop"
		case 1, 2:
			i := t.Choose(len(c12boxes))
			if usedBox[i] {
				continue
			}
			usedBox[i] = true
			c.Kind, c.Arg, c.N = "status", c12boxes[i], uint32(t.Choose(1000))
		case 3, 4:
			u := 1 + t.Choose(8)
			if usedUID[u] {
				continue
			}
			usedUID[u] = true
			c.Kind, c.UID, c.Flags, c.N = []string{"uidfetch", "uidstore"}[t.Choose(2)], imap.UID(u), genFlagList(t), uint32(6+t.Choose(9)) // (sequence numbers 1..5 belong to the FETCH-by-number commands)
		case 5:
			c.Kind, c.Arg = []string{"create", "delete", "subscribe"}[t.Choose(3)], "box"+fmt.Sprint(len(cmds))
		case 6:
			if hasNS {
				continue
			}
			hasNS = true
			c.Kind, c.Class, c.Arg = "namespace", "namespace", []string{"", "INBOX.", "#x/"}[t.Choose(3)]
		case 7, 8:
			// (kept in one ordered class with the plain SEARCH: the client hands an untagged SEARCH
			// to the oldest pending search command whatever its RETURN options; not judged here)
			c.Kind, c.Class = "esearch", "seq"
			lo := 1 + t.Choose(50)
			c.Set = fmt.Sprintf("%d:%d", lo, lo+1+t.Choose(5))
		case 9, 10:
			c.Kind, c.Class = "list", "list"
			for i, k := 0, t.Choose(4); i < k; i++ {
				c.Names = append(c.Names, fmt.Sprintf("L%d-%d", len(cmds), i))
			}
		case 11:
			c.Kind, c.Class = "search", "seq"
			for i, k := 0, t.Choose(4); i < k; i++ {
				c.Nums = append(c.Nums, uint32(1+t.Choose(30)))
			}
		case 12:
			c.Kind, c.Class = "expunge", "seq"
			for i, k := 0, t.Choose(3); i < k; i++ {
				c.Nums = append(c.Nums, uint32(1+t.Choose(5)))
			}
		default:
			c.Kind, c.Class = "append", "append"
			c.N = uint32([]int{3, 40, 5000}[t.Choose(3)])
			if (syncLiterals || c.N > 4096) && c.Status != "OK" && t.Choose(2) == 0 {
				c.Refuse = true
			}
		}
		cmds = append(cmds, c)
	}
	return cmds
}

type c12model struct {
	count  uint32
	flags  []imap.Flag
	pflags []imap.Flag
	// unsolFetch: flag lists of the unsolicited "* n FETCH (FLAGS ...)" lines sent in the current round, by n
	unsolFetch map[uint32][]string
}

func runC12(r *R) {
	t := r.P
	syncLit := t.Choose(2) == 0 // server without LITERAL-: every literal is synchronising
	netMode := t.Choose(4)
	nrounds := 1 + t.Choose(4)
	var rounds [][]*c12cmd
	for i := 0; i < nrounds; i++ {
		rounds = append(rounds, genC12Round(t, syncLit))
	}
	// after a round the caller may select another mailbox without closing the current one; an IMAP4rev1
	// server announces the new mailbox without "* OK [CLOSED]" (RFC 3501 6.3.1), an IMAP4rev2 server with it
	type reselect struct {
		do, closed bool
		count      uint32
		refuse     bool // the server answers the SELECT with NO: afterwards no mailbox is selected (RFC 9051 6.3.2)
	}
	var resel []reselect
	for i := 0; i < nrounds; i++ {
		resel = append(resel, reselect{do: t.Choose(3) == 0, closed: t.Choose(2) == 0, count: uint32(t.Choose(40)), refuse: t.Choose(4) == 0})
	}
	// after a round the caller may idle: the server accepts ("+", updates, DONE, tagged OK) or refuses the IDLE with a
	// tagged NO/BAD instead of the continuation request (RFC 9051 6.3.13 allows any command to be refused)
	type idleStep struct {
		do     bool
		status string // OK: accepted; NO/BAD: refused
		nupd   int
	}
	var idles []idleStep
	for i := 0; i < nrounds; i++ {
		idles = append(idles, idleStep{do: t.Choose(3) == 0, status: []string{"OK", "OK", "NO", "BAD"}[t.Choose(4)], nupd: t.Choose(3)})
	}
	// before LOGIN the caller may try a SELECT, which the server refuses: the client stays not authenticated; and instead
	// of LOGOUT the scenario may end with a SELECT that the server answers with "* BYE" and a closed connection
	preSelect := t.Choose(5) == 0
	preSelectStatus := []string{"NO", "BAD"}[t.Choose(2)]
	byeEnd := t.Choose(4) == 0
	// the server's ordering / interleaving choices are drawn during the run from a private tape
	// derived from the plan (drawn here so that the plan tape stays the single source of choices)
	srvSeed := uint64(t.Choose(1 << 30))
	cfg := r.SchedConfig()
	model := &c12model{count: uint32(5 + t.Choose(20)), flags: []imap.Flag{imap.FlagSeen, imap.FlagDeleted}, pflags: []imap.Flag{imap.FlagSeen}}
	capLine := "IMAP4rev1 UIDPLUS ESEARCH NAMESPACE ENABLE"
	if !syncLit {
		capLine += " LITERAL-"
	}
	var finalState imap.ConnState
	var finalMbox *imapclient.SelectedMailbox
	compared := false
	var theSrv *scriptSrv
	r.Sim(cfg, func() {
		cc, sc := r.Net.Pair("cli", "srv")
		switch netMode {
		case 1:
			sc.SetSegMode(2)
		case 2:
			cc.SetShortReads(true)
		case 3:
			sc.SetSendBuffer(60)
			cc.SetShortReads(true)
		}
		srv := newScriptSrv(r, sc)
		st := simrt.NewTape(srvSeed + 9)
		srvDone := make(chan struct{})
		simrt.GoTask("server", func() {
			defer close(srvDone)
			defer sc.Close()
			srv.send("* OK [CAPABILITY " + capLine + "] scripted server ready")
			if preSelect {
				c, ok := srv.readCommand()
				if !ok {
					return
				}
				srv.send(c.Tag + " " + preSelectStatus + " log in first")
			}
			// LOGIN
			c, ok := srv.readCommand()
			if !ok {
				return
			}
			srv.send(c.Tag + " OK [CAPABILITY " + capLine + "] logged in")
			// SELECT
			c, ok = srv.readCommand()
			if !ok {
				return
			}
			srv.send(fmt.Sprintf("* %d EXISTS", model.count), "* FLAGS "+flagListText(model.flags), "* OK [PERMANENTFLAGS "+flagListText(model.pflags)+"] ok", "* OK [UIDVALIDITY 7] ok", "* OK [UIDNEXT 99] ok", c.Tag+" OK [READ-WRITE] selected")
			for ri, round := range rounds {
				if !c12ServeRound(r, srv, st, round, model) {
					return
				}
				if idles[ri].do {
					if c, ok = srv.readCommand(); !ok {
						return
					}
					if idles[ri].status != "OK" {
						srv.send(c.Tag + " " + idles[ri].status + " idling is not possible now")
					} else {
						srv.send("+ idling")
						for i := 0; i < idles[ri].nupd; i++ {
							model.count += uint32(1 + st.Choose(3))
							srv.send(fmt.Sprintf("* %d EXISTS", model.count))
						}
						if l, ok := srv.readLine(); !ok || string(l) != "DONE" {
							return
						}
						srv.send(c.Tag + " OK idle done")
					}
				}
				// the synchronising NOOP after each round
				c, ok = srv.readCommand()
				if !ok {
					return
				}
				srv.send(c.Tag + " OK noop")
				if resel[ri].do {
					if c, ok = srv.readCommand(); !ok {
						return
					}
					if resel[ri].closed {
						srv.send("* OK [CLOSED] previous mailbox closed")
					}
					if resel[ri].refuse {
						srv.send(c.Tag + " NO [NONEXISTENT] no such mailbox")
						// nothing is selected any more: select the first mailbox again for the rounds that follow
						if c, ok = srv.readCommand(); !ok {
							return
						}
						model.count = 4
						model.flags = []imap.Flag{imap.FlagSeen, imap.FlagDeleted}
						model.pflags = []imap.Flag{imap.FlagSeen}
						srv.send(fmt.Sprintf("* %d EXISTS", model.count), "* FLAGS "+flagListText(model.flags), "* OK [PERMANENTFLAGS "+flagListText(model.pflags)+"] ok", "* OK [UIDVALIDITY 7] ok", "* OK [UIDNEXT 99] ok", c.Tag+" OK [READ-WRITE] selected")
						continue
					}
					model.count = resel[ri].count
					model.flags = []imap.Flag{imap.FlagSeen, imap.FlagAnswered}
					model.pflags = []imap.Flag{imap.FlagAnswered}
					srv.send(fmt.Sprintf("* %d EXISTS", model.count), "* FLAGS "+flagListText(model.flags), "* OK [PERMANENTFLAGS "+flagListText(model.pflags)+"] ok", "* OK [UIDVALIDITY 8] ok", "* OK [UIDNEXT 3] ok", c.Tag+" OK [READ-WRITE] selected")
				}
			}
			if byeEnd {
				// the server goes away in the middle of a SELECT
				if _, ok = srv.readCommand(); ok {
					srv.send("* BYE shutting down")
				}
				return
			}
			// LOGOUT or close
			if c, ok = srv.readCommand(); ok && c.Name == "LOGOUT" {
				srv.send("* BYE bye", c.Tag+" OK logout")
			}
		})
		c := imapclient.New(cc, nil)
		callerDone := make(chan struct{})
		simrt.GoTask("caller", func() {
			defer close(callerDone)
			if preSelect {
				r.Probe("select_before_login")
				_, err := c.Select("Early", nil).Wait()
				var ie *imap.Error
				if !errors.As(err, &ie) || string(ie.Type) != preSelectStatus {
					r.Violate("status-mismatch", "Select", "the server refused a SELECT sent before LOGIN with %s, Wait returned %v", preSelectStatus, err)
				}
				if st, mb := c.State(), c.Mailbox(); st != imap.ConnStateNotAuthenticated || mb != nil {
					r.Violate("state-mirror", "refused select before login", "after a SELECT that the server refused before any LOGIN the client reports state %v, mailbox %+v; the transcript implies not authenticated", st, mb)
				}
			}
			if err := c.Login("u", "p").Wait(); err != nil {
				r.Violate("call-failed", "Login", "%v", err)
				return
			}
			if _, err := c.Select("INBOX", nil).Wait(); err != nil {
				r.Violate("call-failed", "Select", "%v", err)
				return
			}
			for ri, round := range rounds {
				for _, cmd := range round {
					c12Issue(c, cmd)
				}
				for _, cmd := range round {
					if m := cmd.wait(); m != "" {
						r.Violate("misrouted-data", cmd.Kind, "round %d, %s: %s", ri, c12describe(cmd), m)
					}
					cmd.done = true
					c12CheckStatus(r, cmd)
				}
				compared = true
				if idles[ri].do {
					r.Probe("idle_" + strings.ToLower(idles[ri].status))
					ic, err := c.Idle()
					if idles[ri].status == "OK" {
						if err != nil {
							r.Violate("call-failed", "Idle", "IDLE after round %d failed although the server accepted it: %v", ri, err)
							return
						}
						if err := ic.Close(); err != nil {
							r.Violate("call-failed", "Idle", "IdleCommand.Close after round %d: %v", ri, err)
							return
						}
						if err := ic.Wait(); err != nil {
							r.Violate("status-mismatch", "Idle", "the server completed IDLE with OK, Wait returned %v", err)
						}
					} else {
						var ie *imap.Error
						if err == nil {
							r.Violate("status-mismatch", "Idle", "the server refused IDLE with %s, Idle() returned nil", idles[ri].status)
							ic.Close()
						} else if !errors.As(err, &ie) || string(ie.Type) != idles[ri].status {
							r.Violate("status-mismatch", "Idle", "the server refused IDLE with %s, Idle() returned %v", idles[ri].status, err)
						}
					}
				}
				if err := c.Noop().Wait(); err != nil {
					r.Violate("connection-unusable", "after round", "the NOOP after round %d failed: %v (a NO/BAD or literal refusal of one command must not affect the connection)", ri, err)
					return
				}
				// mirrored state, compared when every earlier server line has been processed
				mb := c.Mailbox()
				if c.State() != imap.ConnStateSelected || mb == nil {
					r.Violate("state-mirror", "state", "after round %d the client reports state %v, mailbox %v; the transcript implies selected", ri, c.State(), mb)
					return
				}
				if mb.NumMessages != model.count {
					r.Violate("state-mirror", "NumMessages", "after round %d Mailbox().NumMessages = %d, the transcript implies %d", ri, mb.NumMessages, model.count)
				}
				if a, b, ok := jsonEq(flagStrs(model.flags), flagStrs(mb.Flags)); !ok {
					r.Violate("state-mirror", "Flags", "after round %d Mailbox().Flags = %s, the transcript implies %s", ri, b, a)
				}
				if a, b, ok := jsonEq(flagStrs(model.pflags), flagStrs(mb.PermanentFlags)); !ok {
					r.Violate("state-mirror", "PermanentFlags", "after round %d Mailbox().PermanentFlags = %s, the transcript implies %s", ri, b, a)
				}
				if resel[ri].do {
					r.Probe("reselect_without_close")
					want := resel[ri].count
					data, err := c.Select("Second", nil).Wait()
					if resel[ri].refuse {
						r.Probe("reselect_refused")
						if err == nil {
							r.Violate("status-mismatch", "Select", "the server answered the SELECT of a second mailbox with NO, the call returned nil")
						}
						if st, mb := c.State(), c.Mailbox(); st != imap.ConnStateAuthenticated || mb != nil {
							r.Violate("state-mirror", "failed reselect", "after a SELECT that the server refused (it sent [CLOSED]: %v) no mailbox is selected, but the client reports state %v, mailbox %+v", resel[ri].closed, st, mb)
						}
						if _, err := c.Select("INBOX", nil).Wait(); err != nil {
							r.Violate("call-failed", "Select", "SELECT after a refused SELECT failed: %v", err)
							return
						}
						continue
					}
					if err != nil {
						r.Violate("call-failed", "Select", "SELECT of a second mailbox failed: %v", err)
						return
					}
					if data.NumMessages != want {
						r.Violate("misrouted-data", "select", "SELECT of a second mailbox (server sends CLOSED: %v): the server announced %d messages, SelectData.NumMessages = %d", resel[ri].closed, want, data.NumMessages)
					}
					if mb := c.Mailbox(); mb == nil || mb.Name != "Second" || mb.NumMessages != want {
						r.Violate("state-mirror", "reselect", "after SELECT of a second mailbox with %d messages (server sends CLOSED: %v) Mailbox() = %+v", want, resel[ri].closed, mb)
					}
				}
			}
			finalState, finalMbox = c.State(), c.Mailbox()
			if byeEnd {
				r.Probe("bye_during_select")
				if _, err := c.Select("Gone", nil).Wait(); err == nil {
					r.Violate("status-mismatch", "Select", "the server answered a SELECT with '* BYE' and closed the connection, Wait returned nil")
				}
				if st, mb := c.State(), c.Mailbox(); st != imap.ConnStateLogout || mb != nil {
					r.Violate("state-mirror", "bye during select", "the server said BYE and closed the connection while a SELECT was pending; the client reports state %v, mailbox %+v; the transcript implies logout", st, mb)
				}
				c.Close()
				return
			}
			c.Logout().Wait()
			c.Close()
		})
		waitOrTimeout(callerDone, 24*time.Hour)
		c.Close()
		waitOrTimeout(srvDone, time.Hour)
		theSrv = srv
	})
	if theSrv != nil && len(r.viol) > 0 {
		r.Tracef("client->server: %q", clipStr(string(theSrv.all), 2000))
		r.Tracef("server->client: %q", clipStr(theSrv.sent.String(), 2500))
	}
	if r.Res.Infra != "" {
		return
	}
	r.Nontrivial = compared
	r.CheckLiveness(false)
	_, _ = finalState, finalMbox
	for ri, round := range rounds {
		for _, cmd := range round {
			if cmd.tag != "" && !cmd.done && len(r.viol) == 0 {
				r.Violate("never-completed", cmd.Kind, "round %d: %s was never completed", ri, c12describe(cmd))
			}
		}
	}
}

func flagListText(f []imap.Flag) string {
	var s []string
	for _, x := range f {
		s = append(s, string(x))
	}
	return "(" + strings.Join(s, " ") + ")"
}

func c12describe(c *c12cmd) string {
	return fmt.Sprintf("%s(arg=%q uid=%d) expected %s [%s] %q", c.Kind, c.Arg, c.UID, c.Status, c.Code, c.Text)
}

func c12CheckStatus(r *R, c *c12cmd) {
	if c.Status == "OK" {
		if c.err != nil {
			r.Violate("wrong-status", c.Kind, "%s: the tagged response was OK but the command returned %v", c12describe(c), c.err)
		}
		return
	}
	ie, ok := c.err.(*imap.Error)
	if !ok {
		r.Violate("wrong-status", c.Kind, "%s: the tagged response was %s but the command returned %v", c12describe(c), c.Status, c.err)
		return
	}
	if string(ie.Type) != c.Status || string(ie.Code) != c.Code || ie.Text != c.Text {
		r.Violate("wrong-status", c.Kind, "%s: the command returned type=%s code=%q text=%q", c12describe(c), ie.Type, ie.Code, ie.Text)
	}
}

func c12Issue(c *imapclient.Client, cmd *c12cmd) {
	switch cmd.Kind {
	case "noop":
		x := c.Noop()
		cmd.wait = func() string { cmd.err = x.Wait(); return "" }
	case "status":
		x := c.Status(cmd.Arg, &imap.StatusOptions{NumMessages: true})
		cmd.wait = func() string {
			d, err := x.Wait()
			cmd.err = err
			if err == nil && (d.Mailbox != cmd.Arg || d.NumMessages == nil || *d.NumMessages != cmd.N) {
				n := int64(-1)
				if d.NumMessages != nil {
					n = int64(*d.NumMessages)
				}
				return fmt.Sprintf("STATUS data delivered: mailbox %q messages %d, sent for this command: mailbox %q messages %d", d.Mailbox, n, cmd.Arg, cmd.N)
			}
			return ""
		}
	case "uidfetch", "uidstore":
		var x *imapclient.FetchCommand
		if cmd.Kind == "uidfetch" {
			x = c.Fetch(imap.UIDSetNum(cmd.UID), &imap.FetchOptions{Flags: true})
		} else {
			// (also .SILENT: the server may still answer with FETCH data - CONDSTORE's MODSEQ, or flags changed by
			// someone else, RFC 9051 6.4.6 - and that data answers this command)
			x = c.Store(imap.UIDSetNum(cmd.UID), &imap.StoreFlags{Op: imap.StoreFlagsAdd, Silent: cmd.N%2 == 0, Flags: []imap.Flag{imap.FlagSeen}}, nil)
		}
		cmd.wait = func() string {
			msgs, err := x.Collect()
			cmd.err = err
			if cmd.NoData {
				if len(msgs) != 0 {
					return fmt.Sprintf("FETCH data delivered although none was sent for this command: %d message(s)", len(msgs))
				}
				return ""
			}
			if len(msgs) != 1 || msgs[0].UID != cmd.UID || msgs[0].SeqNum != cmd.N {
				var got []string
				for _, m := range msgs {
					got = append(got, fmt.Sprintf("seq %d uid %d", m.SeqNum, m.UID))
				}
				return fmt.Sprintf("FETCH data delivered: %v, sent for this command: seq %d uid %d", got, cmd.N, cmd.UID)
			}
			if _, _, ok := jsonEq(flagStrs(cmd.Flags), flagStrs(msgs[0].Flags)); !ok {
				return fmt.Sprintf("FETCH flags delivered %v, sent %v", msgs[0].Flags, cmd.Flags)
			}
			return ""
		}
	case "seqfetch":
		x := c.Fetch(imap.SeqSetNum(cmd.N), &imap.FetchOptions{Flags: true})
		cmd.wait = func() string {
			msgs, err := x.Collect()
			cmd.err = err
			// FETCH data for message n that arrives while the command is pending may be taken for its answer, but
			// only once: the command receives at most one message, number n, with one of the flag lists sent for n
			if len(msgs) > 1 {
				var got []string
				for _, m := range msgs {
					got = append(got, fmt.Sprintf("seq %d flags %v", m.SeqNum, m.Flags))
				}
				return fmt.Sprintf("FETCH %d delivered %d messages: %v", cmd.N, len(msgs), got)
			}
			if len(msgs) == 1 {
				if msgs[0].SeqNum != cmd.N {
					return fmt.Sprintf("FETCH %d delivered data of message %d", cmd.N, msgs[0].SeqNum)
				}
				ok := fmt.Sprint(flagStrs(msgs[0].Flags)) == fmt.Sprint(flagStrs(cmd.Flags)) && !cmd.NoData
				for _, f := range cmd.sentFor() {
					if f == fmt.Sprint(flagStrs(msgs[0].Flags)) {
						ok = true
					}
				}
				if !ok {
					return fmt.Sprintf("FETCH %d delivered flags %v, which no FETCH response for message %d carried (sent for the command: %v, NoData=%v; unsolicited: %v)", cmd.N, msgs[0].Flags, cmd.N, cmd.Flags, cmd.NoData, cmd.sentFor())
				}
			} else if !cmd.NoData && err == nil {
				return fmt.Sprintf("FETCH %d delivered no message although '* %d FETCH' was sent for it", cmd.N, cmd.N)
			}
			return ""
		}
	case "create":
		x := c.Create(cmd.Arg, nil)
		cmd.wait = func() string { cmd.err = x.Wait(); return "" }
	case "delete":
		x := c.Delete(cmd.Arg)
		cmd.wait = func() string { cmd.err = x.Wait(); return "" }
	case "subscribe":
		x := c.Subscribe(cmd.Arg)
		cmd.wait = func() string { cmd.err = x.Wait(); return "" }
	case "namespace":
		x := c.Namespace()
		cmd.wait = func() string {
			d, err := x.Wait()
			cmd.err = err
			if err == nil && (len(d.Personal) != 1 || d.Personal[0].Prefix != cmd.Arg) {
				return fmt.Sprintf("NAMESPACE data delivered %+v, sent prefix %q", d.Personal, cmd.Arg)
			}
			return ""
		}
	case "esearch":
		x := c.UIDSearch(&imap.SearchCriteria{}, &imap.SearchOptions{ReturnAll: true})
		cmd.wait = func() string {
			d, err := x.Wait()
			cmd.err = err
			if err == nil {
				got := ""
				if d.All != nil {
					got = d.All.String()
				}
				if got != cmd.Set {
					return fmt.Sprintf("ESEARCH data delivered ALL %q, sent for this command's tag: %q", got, cmd.Set)
				}
			}
			return ""
		}
	case "list":
		x := c.List("", "*", nil)
		cmd.wait = func() string {
			l, err := x.Collect()
			cmd.err = err
			var got []string
			for _, d := range l {
				got = append(got, d.Mailbox)
			}
			if _, _, ok := jsonEq(cmd.Names, got); !ok && !(len(cmd.Names) == 0 && len(got) == 0) {
				return fmt.Sprintf("LIST data delivered %v, sent for this command %v", got, cmd.Names)
			}
			return ""
		}
	case "search":
		x := c.Search(&imap.SearchCriteria{}, nil)
		cmd.wait = func() string {
			d, err := x.Wait()
			cmd.err = err
			if err == nil {
				var want imap.SeqSet
				for _, n := range cmd.Nums {
					want.AddNum(n)
				}
				got := ""
				if d.All != nil {
					got = d.All.String()
				}
				if got != want.String() {
					return fmt.Sprintf("SEARCH data delivered %q, sent %q", got, want.String())
				}
			}
			return ""
		}
	case "expunge":
		x := c.Expunge()
		cmd.wait = func() string {
			l, err := x.Collect()
			cmd.err = err
			if _, _, ok := jsonEq(cmd.Nums, l); !ok && !(len(cmd.Nums) == 0 && len(l) == 0) {
				return fmt.Sprintf("EXPUNGE data delivered %v, sent %v", l, cmd.Nums)
			}
			return ""
		}
	case "append":
		x := c.Append("INBOX", int64(cmd.N), nil)
		x.Write(make([]byte, cmd.N))
		x.Close()
		cmd.wait = func() string { _, err := x.Wait(); cmd.err = err; return "" }
	}
}

// c12ServeRound reads the round's commands and answers them in an adversarial but permitted order.
func c12ServeRound(r *R, srv *scriptSrv, st *simrt.Tape, round []*c12cmd, model *c12model) bool {
	// APPEND literals: accept or refuse as planned (the client stops at a synchronising literal,
	// so commands are read one by one and matched with the plan by position)
	idx := 0
	model.unsolFetch = nil
	srv.onSyncLiteral = func(tag string, size int64) (string, time.Duration) {
		if idx < len(round) && round[idx].Kind == "append" && round[idx].Refuse {
			c := round[idx]
			return c12Tagged(tag, c), 0
		}
		return "", 0
	}
	type group struct {
		cmd      *c12cmd
		untagged []string
		tagged   string
		answered bool // already answered (refused literal)
	}
	var groups []*group
	for idx = 0; idx < len(round); idx++ {
		sc, ok := srv.readCommand()
		if !ok {
			return false
		}
		c := round[idx]
		c.tag = sc.Tag
		g := &group{cmd: c, tagged: c12Tagged(sc.Tag, c)}
		if sc.Refused {
			g.answered = true
		}
		switch c.Kind {
		case "status":
			g.untagged = []string{fmt.Sprintf("* STATUS %s (MESSAGES %d)", c.Arg, c.N)}
		case "uidfetch", "uidstore":
			g.untagged = []string{fmt.Sprintf("* %d FETCH (UID %d FLAGS %s)", c.N, c.UID, flagListText(c.Flags))}
		case "seqfetch":
			g.untagged = []string{fmt.Sprintf("* %d FETCH (FLAGS %s)", c.N, flagListText(c.Flags))}
			c.model = model
		case "namespace":
			g.untagged = []string{fmt.Sprintf(`* NAMESPACE (("%s" "/")) NIL NIL`, c.Arg)}
		case "esearch":
			g.untagged = []string{fmt.Sprintf(`* ESEARCH (TAG "%s") UID ALL %s`, sc.Tag, c.Set)}
		case "list":
			for _, n := range c.Names {
				g.untagged = append(g.untagged, fmt.Sprintf(`* LIST () "/" %s`, n))
			}
		case "search":
			l := "* SEARCH"
			for _, n := range c.Nums {
				l += fmt.Sprint(" ", n)
			}
			g.untagged = []string{l}
		case "expunge":
			for _, n := range c.Nums {
				g.untagged = append(g.untagged, fmt.Sprintf("* %d EXPUNGE", n))
			}
		}
		if c.Status != "OK" && c.Kind != "expunge" && st.Choose(2) == 0 {
			g.untagged = nil // a failing command often sends no data
			c.NoData = true
			switch c.Kind {
			case "list":
				c.Names = nil
			case "search":
				c.Nums = nil
			}
		}
		groups = append(groups, g)
	}
	seqOutstanding := func() bool {
		for _, g := range groups {
			if !g.answered && g.cmd.Class == "seq" {
				return true
			}
		}
		return false
	}
	unsolicited := func() {
		switch st.Choose(9) {
		case 0:
			model.count += uint32(1 + st.Choose(3))
			srv.send(fmt.Sprintf("* %d EXISTS", model.count))
		case 1:
			if model.count > 0 && !seqOutstanding() {
				srv.send(fmt.Sprintf("* %d EXPUNGE", 1+st.Choose(int(model.count))))
				model.count--
			}
		case 2:
			model.flags = genFlagList(st)
			srv.send("* FLAGS " + flagListText(model.flags))
		case 3:
			model.pflags = genFlagList(st)
			srv.send("* OK [PERMANENTFLAGS " + flagListText(model.pflags) + "] changed")
		case 4:
			n, fl := uint32(1+st.Choose(5)), genFlagList(st)
			if model.unsolFetch == nil {
				model.unsolFetch = map[uint32][]string{}
			}
			model.unsolFetch[n] = append(model.unsolFetch[n], fmt.Sprint(flagStrs(fl)))
			srv.send(fmt.Sprintf("* %d FETCH (FLAGS %s)", n, flagListText(fl)))
		}
	}
	remaining := 0
	for _, g := range groups {
		if !g.answered {
			remaining++
		}
	}
	for remaining > 0 {
		unsolicited()
		// eligible: not answered, and every earlier command of the same class is answered
		var elig []*group
		for i, g := range groups {
			if g.answered {
				continue
			}
			ok := true
			if g.cmd.Class != "" {
				for _, h := range groups[:i] {
					if !h.answered && h.cmd.Class == g.cmd.Class {
						ok = false
					}
				}
			}
			if ok {
				elig = append(elig, g)
			} else if g.cmd.Kind == "esearch" && len(g.untagged) > 0 {
				// an ESEARCH response names its command by the TAG correlator and carries UIDs: it may be sent
				// while earlier searches are still unanswered (only the tagged completions keep their order)
				elig = append(elig, g)
			}
		}
		g := elig[st.Choose(len(elig))]
		if len(g.untagged) > 0 {
			line := g.untagged[0]
			g.untagged = g.untagged[1:]
			if g.cmd.Kind == "expunge" && model.count > 0 {
				model.count--
			}
			if srv.send(line) != nil {
				return false
			}
			continue
		}
		if srv.send(g.tagged) != nil {
			return false
		}
		g.answered = true
		remaining--
	}
	unsolicited()
	srv.onSyncLiteral = nil
	return true
}

func c12Tagged(tag string, c *c12cmd) string {
	s := tag + " " + c.Status
	if c.Code != "" {
		s += " [" + c.Code + "]"
	}
	return s + " " + c.Text
}
