package harness

import (
	"bytes"
	"crypto/tls"
	"fmt"
	"strings"
	"time"

	"github.com/emersion/go-imap/v2"
	"github.com/emersion/go-imap/v2/imapclient"
	"github.com/emersion/go-imap/v2/imapserver"
	"verif.local/simrt"
)

// C17 — STARTTLS boundary: early plaintext is never treated as protected data.

func init() {
	register(&Prop{
		ID:    "C17",
		Level: "exploration",
		Rule: "two case classes. (server) a man-in-the-middle raw peer sends 'tag STARTTLS CRLF' followed by a plaintext suffix of 0..3 commands carrying poison markers, split across 1..4 network writes at seeded positions and under seeded segmentation, then runs a real crypto/tls client handshake; configurations {TLS configured or not} x {InsecureAuth}; optionally a plaintext LOGIN/AUTHENTICATE before and a second STARTTLS after the upgrade. (client) imapclient.NewStartTLS against a scripted server whose STARTTLS OK is followed, in the same or later writes, by injected plaintext responses (fake CAPABILITY, EXISTS, tagged OK for the next tags), then a real crypto/tls server handshake; greetings OK / PREAUTH / BYE. " +
			"Non-trivial: the STARTTLS exchange was reached. Distinct: distinct event-log hashes.",
		Components:   "real: imapserver.Conn (handleStartTLS, capability advertisement, login gating), imapclient.Client (NewStartTLS, upgradeStartTLS) (woven), crypto/tls (un-woven); stub: MITM raw peer / scripted server, recording Session, network, clock, scheduler",
		Assumptions:  []string{"the client's lazy TLS handshake is serialised by a simulated mutex (simrt.TLSClient) instead of crypto/tls's own real mutex; in half of the runs the caller issues its first post-upgrade command as soon as NewStartTLS returns", "a failed handshake is an acceptable outcome of injected plaintext"},
		QuickRuns:    3000,
		ThoroughRuns: 80000,
		Run:          runC17,
	})
}

func runC17(r *R) {
	if r.P.Choose(2) == 0 {
		c17Server(r)
	} else {
		c17Client(r)
	}
}

func splitWrites(t *simrt.Tape, b []byte) [][]byte {
	n := 1 + t.Choose(4)
	var out [][]byte
	for i := 1; i < n && len(b) > 1; i++ {
		k := 1 + t.Choose(len(b)-1)
		out = append(out, b[:k])
		b = b[k:]
	}
	return append(out, b)
}

func c17Server(r *R) {
	t := r.P
	tlsConfigured := t.Choose(4) != 0
	insecure := t.Choose(2) == 0
	preLogin := t.Choose(3) == 0
	nSuffix := t.Choose(4)
	var suffix []byte
	var poison []string
	for i := 0; i < nSuffix; i++ {
		tag := fmt.Sprintf("PZN%d", i)
		box := fmt.Sprintf("POISONBOX%d", i)
		poison = append(poison, tag, box)
		suffix = append(suffix, []string{tag + ` LOGIN "user" "` + box + `"` + "\r\n", tag + " CREATE " + box + "\r\n", tag + " NOOP\r\n", tag + " AUTHENTICATE PLAIN AHVzZXIA" + "cGFzcw==" + "\r\n"}[t.Choose(4)]...)
	}
	data := append([]byte("s1 STARTTLS\r\n"), suffix...)
	writes := splitWrites(t, data)
	netMode := t.Choose(3)
	secondStartTLS := t.Choose(3) == 0
	cfg := r.SchedConfig()
	b := newStubBackend()
	var log *logBuf
	var plaintextAfter []byte
	var greetCaps map[string]bool
	var preLoginReply *Resp
	var tlsResps []Resp
	handshakeOK := false
	startTLSAccepted := false
	reached := false
	r.Tracef("server half: tlsConfigured=%v insecureAuth=%v preLogin=%v writes=%q", tlsConfigured, insecure, preLogin, writes)
	r.Sim(cfg, func() {
		srvTLS, cliTLS := testTLS()
		opts := &imapserver.Options{Caps: serverCaps(t.Choose(2)), InsecureAuth: insecure}
		if tlsConfigured {
			opts.TLSConfig = srvTLS
		}
		env := newStubEnv(r, b, opts)
		log = env.log
		cc, sc := env.Connect("mitm")
		if netMode == 1 {
			cc.SetSegMode(2)
		} else if netMode == 2 {
			cc.SetSegMode(1)
		}
		_ = sc
		done := make(chan struct{})
		simrt.GoTask("mitm", func() {
			defer close(done)
			defer cc.Close()
			p := newRawPeer(r, "mitm", cc)
			p.timeout = 5 * time.Minute
			if !p.waitGreeting() {
				return
			}
			greetCaps, _ = capsOf(p.greeting)
			if preLogin {
				p.run([]rawCmd{textCmd("p1", `LOGIN "user" "pass"`)})
				if len(p.outcomes) > 0 {
					preLoginReply = p.outcomes[0].Reply
				}
				if p.eof {
					return
				}
			}
			reached = true
			from := len(p.resps)
			for _, w := range writes {
				if p.write(w) != nil {
					return
				}
			}
			// the plaintext answer to STARTTLS
			rp, _, ok := p.findTagged("s1", from)
			if !ok || rp.Name != "OK" {
				if ok {
					r.Tracef("STARTTLS answered %s %s", rp.Name, rp.Text)
					if tlsConfigured && !(preLoginReply != nil && preLoginReply.Name == "OK") {
						r.Violate("starttls-refused", rp.Name, "STARTTLS was refused (%s) although TLS is configured and the connection is plaintext and not authenticated", rp.Text)
					}
				}
				// whatever else arrives in plaintext belongs to the suffix commands: legal only if TLS did not start
				p.timeout = 2 * time.Second
				p.drain()
				tlsResps = p.resps
				return
			}
			if !tlsConfigured {
				r.Violate("starttls-accepted-unconfigured", "", "STARTTLS was answered OK although no TLS configuration exists")
				return
			}
			startTLSAccepted = true
			// everything after the OK line must be TLS records
			mark := len(p.buf)
			cc.SetDeadline(time.Now().Add(10 * time.Minute))
			tc := tls.Client(cc, cliTLS)
			err := tc.Handshake()
			plaintextAfter = append([]byte{}, p.buf[p.lineEnd:mark]...)
			if err != nil {
				r.Tracef("TLS handshake failed (acceptable with an injected suffix): %v", err)
				r.Probe("handshake_failed")
				return
			}
			handshakeOK = true
			r.Probe("handshake_ok")
			tp := newRawPeer(r, "mitm-tls", tc)
			tp.timeout = 5 * time.Minute
			script := []rawCmd{textCmd("t0", "CAPABILITY"), textCmd("t1", `LOGIN "user" "pass"`), textCmd("t2", "NOOP")}
			if secondStartTLS {
				script = append(script, textCmd("t3", "STARTTLS"))
			}
			script = append(script, textCmd("t9", "LOGOUT"))
			tp.run(script)
			tlsResps = tp.resps
			tc.Close()
		})
		waitOrTimeout(done, 24*time.Hour)
		env.srv.Close()
	})
	if r.Res.Infra != "" {
		return
	}
	r.Nontrivial = reached
	r.CheckLiveness(true)
	for _, p := range log.panics() {
		r.Violate("server-panic", panicLogClass(p), "%s", clipStr(p, 2000))
	}
	// capability advertisement on the plaintext connection
	if greetCaps != nil {
		hasAuth := false
		for c := range greetCaps {
			if strings.HasPrefix(c, "AUTH=") {
				hasAuth = true
			}
		}
		if greetCaps["STARTTLS"] != tlsConfigured {
			r.Violate("capability-advertisement", "STARTTLS", "greeting capabilities %v, TLS configured: %v", keys(greetCaps), tlsConfigured)
		}
		if !insecure && (hasAuth || !greetCaps["LOGINDISABLED"]) {
			r.Violate("capability-advertisement", "auth offered on plaintext", "plaintext connection without InsecureAuth advertises %v", keys(greetCaps))
		}
	}
	if preLogin && !insecure && preLoginReply != nil && preLoginReply.Name == "OK" {
		r.Violate("credentials-over-plaintext", "LOGIN accepted", "LOGIN was accepted on a plaintext connection without InsecureAuth")
	}
	tlsStarted := handshakeOK
	for _, c := range b.calls {
		for _, a := range c.Args {
			for _, m := range poison {
				if strings.Contains(a, m) && startTLSAccepted {
					r.Violate("plaintext-executed-after-starttls", c.Method, "backend call %s carries %q, which was only ever sent in plaintext after the STARTTLS line", c, m)
				}
			}
		}
		if (c.Method == "Login" || strings.HasPrefix(c.Method, "SASL")) && !insecure && !tlsStarted {
			r.Violate("credentials-over-plaintext", c.Method, "credentials reached the backend (%s) although TLS never started and InsecureAuth is off", c)
		}
	}
	for _, rp := range tlsResps {
		for _, m := range poison {
			if strings.HasPrefix(m, "PZN") && rp.Tag == m && startTLSAccepted {
				r.Violate("plaintext-executed-after-starttls", "tagged reply", "the server answered %q, a command that was only ever sent in plaintext after the STARTTLS line", clipStr(string(rp.Line.Raw), 120))
			}
		}
		if rp.Tag == "t3" && rp.Name == "OK" {
			r.Violate("starttls-under-tls", "", "a second STARTTLS under TLS was answered OK")
		}
		if rp.Tag == "t1" && handshakeOK && rp.Name != "OK" {
			r.Violate("login-refused-under-tls", rp.Name, "LOGIN under TLS was answered %s %s", rp.Name, rp.Text)
		}
		if rp.Tag == "*" && rp.Name == "CAPABILITY" && handshakeOK {
			caps, _ := capsOf(&rp)
			if caps["STARTTLS"] || caps["LOGINDISABLED"] {
				r.Violate("capability-advertisement", "under TLS", "capabilities under TLS: %v", keys(caps))
			}
		}
	}
	if len(plaintextAfter) > 0 && plaintextAfter[0] != 0x16 && plaintextAfter[0] != 0x15 && plaintextAfter[0] != 0x14 && plaintextAfter[0] != 0x17 {
		r.Violate("plaintext-after-starttls-ok", "", "after the OK that starts TLS the server wrote bytes that are not TLS records: %q", clipStr(string(plaintextAfter), 120))
	}
	if len(r.viol) > 0 {
		for _, c := range b.calls {
			r.Tracef("backend %s", c)
		}
	}
}

func c17Client(r *R) {
	t := r.P
	greeting := t.Choose(6) // 0..3 OK, 4 PREAUTH, 5 BYE
	greetCaps := t.Choose(2) == 0
	nInj := t.Choose(4)
	var inject []byte
	for i := 0; i < nInj; i++ {
		inject = append(inject, []string{"* CAPABILITY IMAP4rev1 X-INJECTED AUTH=PLAIN\r\n", "* 42 EXISTS\r\n", "* OK [CAPABILITY IMAP4rev1 X-INJECTED] hi\r\n", "T2 OK [CAPABILITY IMAP4rev1 X-INJECTED] injected\r\n", "T3 OK injected\r\n", "* BYE injected\r\n", "* PREAUTH injected\r\n"}[t.Choose(7)]...)
	}
	sameWrite := t.Choose(2) == 0
	netMode := t.Choose(3)
	// capability data sent in plaintext between the STARTTLS command and its OK: legitimate responses at that
	// point, but what they say must not outlive the upgrade (RFC 9051 6.2.1: the client MUST discard cached
	// capability information once TLS has started)
	// 1 run in 2 the caller uses the client as soon as NewStartTLS has returned, while the reader goroutine may still be
	// switching to TLS (the handshake itself is serialised by simrt.TLSClient)
	eager := t.Choose(2) == 0
	preCapsMode := t.Choose(4) // 0: untagged CAPABILITY before the OK; 1: CAPABILITY response code on the STARTTLS OK itself; else none
	preCaps := preCapsMode == 0
	cfg := r.SchedConfig()
	var newErr error
	var caps imap.CapSet
	var state imap.ConnState
	var noopErr, loginErr error
	gotClient := false
	reached := false
	injectedSeen := ""
	var tlsCmds []string
	var cliWritten []byte
	r.Tracef("client half: greeting=%d inject=%q sameWrite=%v", greeting, inject, sameWrite)
	r.Sim(cfg, func() {
		srvTLS, cliTLS := testTLS()
		cc, sc := r.Net.Pair("cli", "srv")
		switch netMode {
		case 1:
			sc.SetSegMode(2)
		case 2:
			sc.SetSegMode(1)
		}
		srv := newScriptSrv(r, sc)
		srv.timeout = 10 * time.Minute
		hsDone := make(chan struct{})
		srvDone := make(chan struct{})
		simrt.GoTask("server", func() {
			defer close(srvDone)
			defer sc.Close()
			hsClosed := false
			closeHS := func() {
				if !hsClosed {
					hsClosed = true
					close(hsDone)
				}
			}
			defer closeHS()
			capTxt := ""
			if greetCaps {
				capTxt = "[CAPABILITY IMAP4rev1 STARTTLS LOGINDISABLED] "
			}
			switch greeting {
			case 4:
				srv.send("* PREAUTH " + capTxt + "already in")
			case 5:
				srv.send("* BYE " + capTxt + "go away")
				return
			default:
				srv.send("* OK " + capTxt + "ready")
			}
			for {
				c, ok := srv.readCommand()
				if !ok {
					return
				}
				if c.Name == "CAPABILITY" {
					srv.send("* CAPABILITY IMAP4rev1 STARTTLS LOGINDISABLED", c.Tag+" OK done")
					continue
				}
				if c.Name != "STARTTLS" {
					srv.send(c.Tag + " BAD expected STARTTLS")
					continue
				}
				reached = true
				if preCaps {
					srv.send("* CAPABILITY IMAP4rev1 STARTTLS X-PLAINTEXT AUTH=PLAIN")
				}
				line := []byte(c.Tag + " OK begin TLS now\r\n")
				if preCapsMode == 1 {
					line = []byte(c.Tag + " OK [CAPABILITY IMAP4rev1 X-PLAINTEXT AUTH=PLAIN] begin TLS now\r\n")
				}
				if sameWrite {
					srv.sendRaw(append(line, inject...))
				} else {
					srv.sendRaw(line)
					if len(inject) > 0 {
						srv.sendRaw(inject)
					}
				}
				break
			}
			sc.SetDeadline(time.Now().Add(10 * time.Minute))
			ts := tls.Server(sc, srvTLS)
			if err := ts.Handshake(); err != nil {
				r.Tracef("server-side TLS handshake failed: %v", err)
				r.Probe("handshake_failed")
				return
			}
			r.Probe("handshake_ok")
			closeHS()
			tsrv := newScriptSrv(r, ts)
			tsrv.timeout = 10 * time.Minute
			for {
				c, ok := tsrv.readCommand()
				if !ok {
					return
				}
				tlsCmds = append(tlsCmds, c.Name)
				switch c.Name {
				case "CAPABILITY":
					tsrv.send("* CAPABILITY IMAP4rev1 AUTH=PLAIN X-REAL", c.Tag+" OK done")
				case "LOGOUT":
					tsrv.send("* BYE bye", c.Tag+" OK bye")
					return
				default:
					tsrv.send(c.Tag + " OK real")
				}
			}
		})
		done := make(chan struct{})
		simrt.GoTask("caller", func() {
			defer close(done)
			var c *imapclient.Client
			handler := &imapclient.UnilateralDataHandler{Mailbox: func(d *imapclient.UnilateralDataMailbox) {
				if d.NumMessages != nil && *d.NumMessages == 42 {
					injectedSeen = "unilateral EXISTS 42 from the injected plaintext was delivered to the handler"
				}
			}}
			c, newErr = imapclient.NewStartTLS(cc, &imapclient.Options{TLSConfig: cliTLS, UnilateralDataHandler: handler})
			if newErr != nil || c == nil {
				return
			}
			gotClient = true
			if !eager {
				simrt.Recv(hsDone)
			}
			state = c.State()
			caps = c.Caps()
			if state == imap.ConnStateNotAuthenticated {
				loginErr = c.Login("u", "p").Wait()
			}
			noopErr = c.Noop().Wait()
			c.Logout().Wait()
			c.Close()
		})
		waitOrTimeout(done, 24*time.Hour)
		cc.Close()
		waitOrTimeout(srvDone, time.Hour)
		cliWritten = append([]byte{}, cc.Written()...)
	})
	if r.Res.Infra != "" {
		return
	}
	r.Nontrivial = reached
	r.CheckLiveness(true)
	// the client's own side of the boundary: after its STARTTLS command line it sends TLS records only
	if w := cliWritten; len(w) > 0 {
		if i := bytes.Index(w, []byte("STARTTLS\r\n")); i >= 0 && reached {
			rest := w[i+len("STARTTLS\r\n"):]
			if len(rest) > 0 && rest[0] != 0x16 {
				r.Violate("client-plaintext-after-starttls", "", "after its STARTTLS command the client wrote cleartext on the raw connection instead of a TLS handshake record: %q", clipStr(string(rest), 120))
			}
		}
	}
	switch greeting {
	case 4:
		if newErr == nil {
			r.Violate("preauth-accepted", "", "NewStartTLS succeeded although the server greeted with PREAUTH on the unencrypted connection")
		}
		return
	case 5:
		if newErr == nil {
			r.Violate("bye-greeting-accepted", "", "NewStartTLS succeeded although the server greeted with BYE")
		}
		return
	}
	if !gotClient {
		r.Tracef("NewStartTLS failed: %v", newErr)
		return
	}
	if injectedSeen != "" {
		r.Violate("injected-plaintext-interpreted", "EXISTS", "%s", injectedSeen)
	}
	if caps.Has("X-INJECTED") {
		r.Violate("injected-plaintext-interpreted", "CAPABILITY", "after the upgrade the client reports capabilities %v: X-INJECTED was only ever sent in plaintext after the STARTTLS OK line", capList(caps))
	}
	if caps.Has("X-PLAINTEXT") {
		r.Violate("plaintext-capabilities-survive-upgrade", "", "after the upgrade the client reports capabilities %v: X-PLAINTEXT was only ever sent in plaintext, before or on the STARTTLS OK line; capability information from before TLS must be discarded", capList(caps))
	}
	if state == imap.ConnStateAuthenticated || state == imap.ConnStateSelected {
		r.Violate("injected-plaintext-interpreted", "state", "after the upgrade the client reports state %v (the TLS side never authenticated it)", state)
	}
	for _, e := range []error{loginErr, noopErr} {
		if e != nil && strings.Contains(e.Error(), "injected") {
			r.Violate("injected-plaintext-interpreted", "tagged", "a command was completed by an injected plaintext response: %v", e)
		}
	}
	if state == imap.ConnStateNotAuthenticated && loginErr == nil && !hasStr(tlsCmds, "LOGIN") {
		r.Violate("injected-plaintext-interpreted", "tagged", "Login completed successfully but the server never received a LOGIN inside TLS (commands received inside TLS: %v)", tlsCmds)
	}
	if noopErr == nil && !hasStr(tlsCmds, "NOOP") {
		r.Violate("injected-plaintext-interpreted", "tagged", "Noop completed successfully but the server never received a NOOP inside TLS (commands received inside TLS: %v)", tlsCmds)
	}
	_ = bytes.Equal
}

func capList(c imap.CapSet) []string {
	var l []string
	for k := range c {
		l = append(l, string(k))
	}
	sortStrings(l)
	return l
}
