package harness

import (
	"fmt"
	"strings"
	"time"

	"github.com/emersion/go-imap/v2/imapclient"
	"verif.local/simrt"
	"verif.local/simrt/simnet"
)

// C10 — every client command terminates, whatever happens to the connection.
//
// System: real imapclient.Client <-> simnet <-> real imapserver + imapmemserver (the conformant
// peer that produces the transcript). A fault (FIN, RST, stall, client write error, caller Close)
// is placed at one byte offset of the transcript; the sweep enumerates every offset.

const (
	c10Corpus   = 96   // corpus scenarios (generated from their number alone, so the sweep can revisit them)
	c10SweepMax = 1400 // offsets 0..c10SweepMax enumerated per (scenario, kind) in the thorough tier
)

const (
	fNone = iota
	fFIN
	fRST
	fStall
	fWriteErr
	fCallerClose
	fStallThenClose
	nFaultKinds
)

var faultNames = [...]string{"none", "fin", "rst", "stall", "client-write-error", "caller-close", "stall-then-caller-close"}

func init() {
	register(&Prop{
		ID:    "C10",
		Level: "fault_enumeration",
		Rule: "case = (scenario of client API calls, fault kind, byte offset of the fault in the server->client or client->server stream (1 sampled fault in 4 strictly inside a continuation request line), schedule). " +
			"Quick: seeded sampling of scenarios, kinds and offsets. Thorough: for each of the corpus scenarios and each fault kind, every offset 0.." +
			fmt.Sprint(c10SweepMax) + " (mod transcript length+1) is executed, plus seeded free scenarios. A case is non-trivial when at least one command was issued after the greeting; " +
			"distinct = distinct event-log hashes (scheduler decisions + network events).",
		Components:   "real: imapclient.Client (woven), internal/imapwire, imapserver.Conn + imapmemserver as the conformant transcript source (woven); stub: network (simnet), clock (synctest), scheduler (simrt)",
		Assumptions:  []string{"the caller honours the documented contract: streaming commands are consumed or closed, in issue order", "the transport is a reliable ordered byte stream until the injected fault"},
		QuickRuns:    6000,
		ThoroughRuns: c10Corpus*(nFaultKinds-1)*(c10SweepMax+1) + 60000,
		Run:          runC10,
		Forced:       c10Forced,
	})
}

// c10Forced enumerates (scenario, kind, offset) triples in the thorough tier.
func c10Forced(tier string, idx int) []uint32 {
	if tier != "thorough" {
		return nil
	}
	total := c10Corpus * (nFaultKinds - 1) * (c10SweepMax + 1)
	if idx >= total {
		return nil
	}
	sc := idx % c10Corpus
	kind := 1 + (idx/c10Corpus)%(nFaultKinds-1)
	k := idx / (c10Corpus * (nFaultKinds - 1))
	return []uint32{0, uint32(sc), uint32(kind), uint32(k)}
}

type c10Out struct {
	recs          []*cmdRec
	closeReturned bool
	mainDone      bool
	cli           *simnet.Conn
	log           *logBuf
	// rescued: the caller was still blocked after 6 simulated hours of silence and the harness closed the client
	rescued bool
}

func c10Exec(r *R, ops []cop, capsVariant int, kind int, off int64, netMode int, sched *simrt.Tape, cfg simrt.Config) *c10Out {
	out := &c10Out{}
	root := func() {
		env := newMemEnv(r, memOpts{caps: defaultCaps(capsVariant), mailboxes: map[string]int{"INBOX": 3, "Archive": 1, "Trash": 0}, insecureAuth: true})
		out.log = env.log
		cc := env.Connect("cli")
		out.cli = cc
		switch netMode % 4 {
		case 1:
			cc.SetShortReads(true)
		case 2:
			cc.SetSendBuffer(64)
		case 3:
			cc.SetShortReads(true)
			cc.SetSegMode(2)
		}
		switch kind {
		case fFIN:
			cc.CutIncoming(simnet.CutFIN, off)
		case fRST:
			cc.CutIncoming(simnet.CutRST, off)
		case fStall, fStallThenClose:
			cc.CutIncoming(simnet.CutStall, off)
		case fWriteErr:
			cc.FailWriteAt(off)
		}
		c := imapclient.New(cc, nil)
		mainDone := make(chan struct{})
		closerDone := make(chan struct{})
		simrt.GoTask("caller", func() {
			defer close(mainDone)
			cr := &clientRunner{r: r, c: c, tag: "caller"}
			defer func() { out.recs = cr.recs }()
			cr.run(ops)
			c.Close()
			out.closeReturned = true
		})
		simrt.GoTask("closer", func() {
			defer close(closerDone)
			switch kind {
			case fCallerClose:
				cc.WaitIncoming(off)
				r.Tracef("closer: Close() after %d bytes delivered", cc.InDelivered())
				c.Close()
				return
			case fStallThenClose:
				cc.WaitIncoming(off)
				if waitOrTimeout(mainDone, 10*time.Second) {
					return
				}
				r.Tracef("closer: Close() 10s into the stall")
				c.Close()
				return
			}
			if waitOrTimeout(mainDone, 6*time.Hour) {
				return
			}
			r.Tracef("closer: Close() after 6 simulated hours of silence")
			r.Probe("closed_after_silence")
			out.rescued = true
			c.Close()
		})
		out.mainDone = waitOrTimeout(mainDone, 12*time.Hour)
		waitOrTimeout(closerDone, time.Hour)
		env.Shutdown()
	}
	saved := r.S
	r.S = sched
	r.Sim(cfg, root)
	r.S = saved
	return out
}

func runC10(r *R) {
	// fixed-position draws (the sweep forces them)
	mode := r.P.Choose(2)
	scen := r.P.Choose(c10Corpus)
	kind := r.P.Choose(nFaultKinds)
	ksel := r.P.Choose(1 << 16)
	var ops []cop
	var capsVariant, netMode int
	if mode == 0 {
		st := simrt.NewTape(uint64(scen) + 1000)
		capsVariant = st.Choose(4)
		netMode = st.Choose(4)
		ops = genScenario(st, 7)
	} else {
		capsVariant = r.P.Choose(4)
		netMode = r.P.Choose(4)
		ops = genScenario(r.P, 7)
	}
	cfg := r.SchedConfig()
	r.Nontrivial = len(ops) > 0

	r.Tracef("scenario mode=%d #%d caps=%d net=%d ops=%v", mode, scen, capsVariant, netMode, ops)
	// dry run: fault-free, calm schedule; measures the transcript
	dry := c10Exec(r, ops, capsVariant, fNone, 0, 0, simrt.ReplayTape(nil), simrt.Config{MaxSteps: 150000})
	if r.Res.Infra != "" {
		return
	}
	ls2c, lc2s := int64(len(dry.cli.Received())), int64(len(dry.cli.Written()))
	dryViol := len(r.viol)
	c10Judge(r, dry, fNone, "dry")
	if len(r.viol) > dryViol {
		return // the fault-free baseline already violates the property; report that
	}
	r.trace = r.trace[:0]
	var off int64
	if kind == fWriteErr {
		off = int64(ksel) % (lc2s + 1)
	} else {
		off = int64(ksel) % (ls2c + 1)
		// 1 sampled fault in 4 (never a swept one) lands strictly inside a continuation request line: the commands that
		// wait for one (IDLE, AUTHENTICATE, synchronising literals) hold the encoder while they wait
		if (mode == 1 || ksel > c10SweepMax) && ksel%4 == 0 {
			var marks []int64
			rcv := dry.cli.Received()
			for i := 0; i < len(rcv); i++ {
				if rcv[i] == '+' && (i == 0 || rcv[i-1] == '\n') {
					for j := i + 1; j < len(rcv) && rcv[j-1] != '\n'; j++ {
						marks = append(marks, int64(j))
					}
				}
			}
			if len(marks) > 0 {
				off = marks[(ksel/4)%len(marks)]
				r.Probe("fault_inside_continuation_request")
			}
		}
	}
	r.Tracef("scenario mode=%d #%d caps=%d net=%d ops=%v", mode, scen, capsVariant, netMode, ops)
	r.Tracef("transcript: server->client %d bytes, client->server %d bytes; fault=%s at offset %d", ls2c, lc2s, faultNames[kind], off)
	out := c10Exec(r, ops, capsVariant, kind, off, netMode, r.S, cfg)
	if r.Res.Infra != "" {
		return
	}
	r.Probe("fault_" + faultNames[kind])
	if mode == 0 && int64(ksel) <= ls2c {
		r.Probe("sweep_offsets_in_range")
	}
	c10Judge(r, out, kind, "fault")
	// a server that goes silent in the middle of a response line (not at a line boundary, where the client has no
	// reason to expect more) is the case the client's own response timeout exists for: the caller must not need rescuing
	if rcv := dry.cli.Received(); kind == fStall && out.rescued && off > 0 && off < int64(len(rcv)) && rcv[off-1] != '\n' {
		r.Violate("own-timeout-never-fired", "", "the server stalled after byte %d of its stream, in the middle of the line %q; the client's own response timeout never ended the wait: the caller was still blocked after 6 simulated hours", off, clipStr(c10lineAt(rcv, off), 120))
	}
	if len(r.viol) > 0 {
		r.Tracef("server->client stream (delivered %d of %d): %q", out.cli.InDelivered(), len(out.cli.Received()), clipStr(string(out.cli.Received()), 1500))
		r.Tracef("client->server stream: %q", clipStr(string(out.cli.Written()), 1500))
	}
}

// c10lineAt returns the line of stream that contains offset off.
func c10lineAt(stream []byte, off int64) string {
	a, b := int(off), int(off)
	for a > 0 && stream[a-1] != '\n' {
		a--
	}
	for b < len(stream) && stream[b] != '\n' {
		b++
	}
	return string(stream[a:b])
}

func c10Judge(r *R, out *c10Out, kind int, phase string) {
	res := r.Res
	if res.StepLimit {
		r.Violate("step-limit", phase, "run did not quiesce within %d steps", res.Steps)
		return
	}
	// 1. termination of every caller-side blocking call, and of the client's goroutines
	var hung, leaked []string
	for _, w := range res.Alive {
		where := normFunc(repoFrame(w.Funcs))
		if w.Task {
			if where == "" {
				where = "harness:" + w.Name
			}
			hung = append(hung, where)
		} else if strings.HasPrefix(where, "imapclient.") || strings.HasPrefix(where, "imapwire.") {
			leaked = append(leaked, where)
		} else {
			r.Probe("server_side_goroutine_left")
		}
	}
	if len(hung) > 0 {
		sortStrings(hung)
		hung = dropHarness(uniq(hung))
		r.Violate("hang", strings.Join(hung, ","), "%s: caller-side calls blocked at quiescence (fault=%s):\n%s%s", phase, faultNames[kind], describeAlive(res), res.WaitCycle)
	} else if len(leaked) > 0 {
		sortStrings(leaked)
		r.Violate("leak", strings.Join(uniq(leaked), ","), "%s: client goroutines alive after Close returned (fault=%s):\n%s", phase, faultNames[kind], describeAlive(res))
	}
	for _, p := range res.Panics {
		r.Violate("panic", panicClass(p), "%s", p)
	}
	if out.cli == nil {
		return
	}
	// 2. a command whose tagged completion was not fully received must not report success
	// The completion counts as received once the client has consumed the tagged line through the CR
	// that terminates its text (the LF after it carries no information and is not demanded).
	consumed := out.cli.InConsumed()
	okTags := map[string]bool{}
	for _, rp := range ParseServerStream(out.cli.Received()) {
		if rp.Line.Complete && rp.Err == "" && rp.Tag != "*" && rp.Tag != "+" && rp.Name == "OK" && consumed >= int64(rp.Line.End-1) {
			okTags[rp.Tag] = true
		}
	}
	var wire []Cmd
	for _, ln := range SplitLines(out.cli.Written(), nil) {
		wire = append(wire, ParseCmd(ln))
	}
	wi := 0
	for _, rec := range out.recs {
		if rec.Op.Kind == opMove {
			// MOVE, or its COPY + STORE + EXPUNGE fallback when the server lacks MOVE: skip its wire commands
			for j := wi; j < len(wire); j++ {
				if wire[j].Name == "MOVE" || wire[j].Name == "UID MOVE" {
					wi = j + 1
					break
				}
				if wire[j].Name == "COPY" || wire[j].Name == "UID COPY" {
					wi = j + 1
					// exactly one STORE and one EXPUNGE follow (CAPABILITY commands of the client may interleave)
					for _, want := range []string{"STORE", "EXPUNGE"} {
						for k := wi; k < len(wire); k++ {
							if strings.HasSuffix(wire[k].Name, want) {
								wi = k + 1
								break
							}
							if wire[k].Name != "" && wire[k].Name != "CAPABILITY" {
								break
							}
						}
					}
					break
				}
			}
			continue
		}
		if rec.Name == "" {
			continue
		}
		tag := ""
		for j := wi; j < len(wire); j++ {
			if wire[j].Name == rec.Name {
				tag = wire[j].Tag
				wi = j + 1
				if rec.Name == "IDLE" { // automatic restarts: the command's result is the last child's
					for k, left := wi, rec.Children-1; k < len(wire) && left > 0; k++ {
						if wire[k].Name == "IDLE" {
							left--
							tag, wi = wire[k].Tag, k+1
						} else if wire[k].Name != "" && wire[k].Name != "CAPABILITY" {
							break
						}
					}
				}
				break
			}
		}
		if !rec.Returned {
			continue // covered by the hang oracle
		}
		if rec.Err == nil && !okTags[tag] {
			r.Violate("success-on-truncation", rec.Name, "%s: %s reported success but its tagged OK (tag %q) was not among the %d bytes the client consumed (fault=%s)", phase, rec.Op, tag, consumed, faultNames[kind])
		}
		if kind == fNone && rec.Err != nil && !isIMAPStatusErr(rec.Err) && !strings.Contains(rec.Err.Error(), "imapclient:") {
			r.Probe("faultfree_connection_error")
			r.Tracef("note: fault-free %s failed with %v", rec.Op, rec.Err)
		}
	}
}

func dropHarness(s []string) []string {
	var repo []string
	for _, x := range s {
		if !strings.HasPrefix(x, "harness:") {
			repo = append(repo, x)
		}
	}
	if len(repo) > 0 {
		return repo
	}
	return s
}
