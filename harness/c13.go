package harness

import (
	"fmt"
	"strings"
	"time"

	"github.com/emersion/go-imap/v2"
	"github.com/emersion/go-imap/v2/imapclient"
	"verif.local/simrt"
	"verif.local/simrt/simnet"
)

// C13 — the client is safe for concurrent use.

func init() {
	register(&Prop{
		ID:    "C13",
		Level: "exploration",
		Rule: "case = (2..6 caller tasks each submitting its own seeded list of plain, streaming and literal-bearing commands on one shared client and consuming its own results, an observer task calling State/Caps/Mailbox, optionally a task calling Close or a connection cut/reset at a seeded byte offset, server capability set, network mode; the first caller logs in with LOGIN or AUTHENTICATE PLAIN/LOGIN), under a seeded schedule with a scheduling point at every mutex operation, channel operation, select, goroutine start and conn call of the woven client. " +
			"A second pass re-runs a share of the cases in the race-visible build. Non-trivial: at least two callers issued a command. Distinct: distinct event-log hashes.",
		Components:   "real: imapclient.Client, internal/imapwire (woven), imapserver + imapmemserver as the peer (woven); stub: network, clock, scheduler",
		Assumptions:  []string{"each caller consumes or closes its own streaming commands in issue order (documented contract)", "race reports count only if both accesses reach go-imap code before any simulator/harness frame (frame rule, DESIGN.md 2.3)"},
		QuickRuns:    8000,
		ThoroughRuns: 250000,
		RaceDivisor:  8,
		RaceScope:    []string{"imapclient.", "imapwire.", "utf7.", "internal."}, // server-side races are C14's business
		Run:          runC13,
	})
}

// genCallerOps draws the operations of one concurrent caller (no login/logout: the first caller
// authenticates and selects before the others start).
func genCallerOps(t *simrt.Tape, n int) []cop {
	var ops []cop
	k := 1 + t.Choose(n)
	for i := 0; i < k; i++ {
		kind := []int{opNoop, opFetch, opFetch, opStatus, opList, opAppend, opAppend, opSearch, opStore, opCaps, opNamespace, opExpunge, opCopy, opIdle, opSelect, opNoop, opMailboxAdmin, opEnable}[t.Choose(18)]
		o := cop{Kind: kind, A: t.Choose(8), B: t.Choose(8), Mode: t.Choose(5)}
		switch kind {
		case opNoop, opSearch, opStatus, opCopy, opNamespace:
			// only non-streaming commands are pipelined here: a caller that submits further commands
			// while it holds an unconsumed streaming command can block the reader and thereby every
			// other caller (e.g. behind an IDLE waiting for its continuation) - that is the caller
			// breaking the documented contract, not the client
			o.Async = t.Choose(3) == 2
		case opIdle:
			o.A = []int{0, 1, 6, 2}[t.Choose(4)] // short idles: other callers are blocked meanwhile
		}
		ops = append(ops, o)
	}
	return ops
}

// runC13Greeting is the second scenario class: callers use the client from the moment it exists, while the
// greeting (with or without a CAPABILITY code) is still in flight. Every call must return.
func runC13Greeting(r *R) {
	t := r.P
	ncallers := 2 + t.Choose(5)
	greetCaps := t.Choose(2) == 0
	netMode := t.Choose(3)
	var plans [][]int
	for i := 0; i < ncallers; i++ {
		var p []int
		for j, n := 0, 1+t.Choose(4); j < n; j++ {
			p = append(p, t.Choose(7))
		}
		plans = append(plans, p)
	}
	cfg := r.SchedConfig()
	if cfg.SwitchPermille < 100 {
		cfg.SwitchPermille = 100 + 100*t.Choose(5)
	}
	returned := 0
	r.Sim(cfg, func() {
		cc, sc := r.Net.Pair("cli", "srv")
		switch netMode {
		case 1:
			sc.SetSegMode(2)
		case 2:
			cc.SetShortReads(true)
		}
		srv := newScriptSrv(r, sc)
		srv.timeout = 2 * time.Hour
		srvDone := make(chan struct{})
		simrt.GoTask("server", func() {
			defer close(srvDone)
			defer sc.Close()
			capLine := "IMAP4rev1 ENABLE ESEARCH UIDPLUS"
			if greetCaps {
				srv.send("* OK [CAPABILITY " + capLine + "] ready")
			} else {
				srv.send("* OK hello")
			}
			for {
				c, ok := srv.readCommand()
				if !ok {
					return
				}
				switch c.Name {
				case "CAPABILITY":
					srv.send("* CAPABILITY "+capLine, c.Tag+" OK done")
				case "SEARCH":
					srv.send("* SEARCH 1 2", c.Tag+" OK done")
				case "LOGOUT":
					srv.send("* BYE bye", c.Tag+" OK bye")
					return
				default:
					srv.send(c.Tag + " OK done")
				}
			}
		})
		c := imapclient.New(cc, nil)
		var dones []chan struct{}
		counts := make([]int, ncallers) // one slot per caller task
		for i := 0; i < ncallers; i++ {
			i := i
			d := make(chan struct{})
			dones = append(dones, d)
			simrt.GoTask(fmt.Sprintf("caller%d", i), func() {
				defer close(d)
				for _, k := range plans[i] {
					switch k {
					case 0:
						_ = c.Caps()
					case 1:
						_ = c.WaitGreeting()
					case 2:
						_ = c.State()
					case 3:
						_ = c.Noop().Wait()
					case 4:
						_, _ = c.Capability().Wait()
					case 5:
						_, _ = c.Search(&imap.SearchCriteria{Text: []string{"x"}}, nil).Wait()
					default:
						_ = c.Mailbox()
					}
					counts[i]++
				}
			})
		}
		for _, d := range dones {
			waitOrTimeout(d, 6*time.Hour)
		}
		c.Close()
		waitOrTimeout(srvDone, time.Hour)
		for _, n := range counts {
			returned += n
		}
	})
	if r.Res.Infra != "" {
		return
	}
	r.Nontrivial = returned >= 2
	r.Probe("greeting_race_scenario")
	res := r.Res
	var hung []string
	for _, w := range res.Alive {
		if w.Task {
			where := normFunc(repoFrame(w.Funcs))
			if where == "" {
				where = "harness:" + w.Name
			}
			hung = append(hung, where)
		}
	}
	if len(hung) > 0 {
		sortStrings(hung)
		r.Violate("hang", strings.Join(dropHarness(uniq(hung)), ","), "calls made while the greeting (CAPABILITY code: %v) was in flight never returned:\n%s%s", greetCaps, describeAlive(res), res.WaitCycle)
	}
	for _, p := range res.Panics {
		r.Violate("panic", panicClass(p), "%s", p)
	}
}

func runC13(r *R) {
	t := r.P
	if t.Choose(6) == 5 {
		runC13Greeting(r)
		return
	}
	ncallers := 2 + t.Choose(5)
	capsVariant := t.Choose(4)
	netMode := t.Choose(4)
	fault := t.Choose(6) // 0,1,2 none; 3 FIN; 4 RST; 5 Close() by a task
	faultSel := t.Choose(1 << 12)
	var lists [][]cop
	for i := 0; i < ncallers; i++ {
		lists = append(lists, genCallerOps(t, 5))
	}
	cfg := r.SchedConfig()
	if cfg.SwitchPermille < 100 {
		cfg.SwitchPermille = 100 + 100*t.Choose(5) // concurrency is the point here
	}
	// the first caller logs in with LOGIN or (1 in 3) with AUTHENTICATE PLAIN / LOGIN, i.e. through continuation requests
	firstOp := cop{Kind: opLogin}
	if t.Choose(3) == 2 {
		firstOp = cop{Kind: opAuthPlain, A: t.Choose(2)}
	}
	for i, l := range lists {
		r.Tracef("caller%d ops=%v", i, l)
	}
	r.Tracef("caps=%d net=%d fault=%d sel=%d", capsVariant, netMode, fault, faultSel)
	var cli *simnet.Conn
	var runners []*clientRunner
	var closeCalls, closeReturns int         // written by the closer task only
	var rootCloseCalls, rootCloseReturns int // written by the root task only
	r.Sim(cfg, func() {
		env := newMemEnv(r, memOpts{caps: defaultCaps(capsVariant), mailboxes: map[string]int{"INBOX": 8, "Archive": 1, "Trash": 0}, insecureAuth: true})
		cc := env.Connect("cli")
		cli = cc
		switch netMode {
		case 1:
			cc.SetShortReads(true)
		case 2:
			cc.SetSendBuffer(64)
		case 3:
			cc.SetShortReads(true)
			cc.SetSegMode(2)
		}
		// transcript length is unknown in advance: the fault offset is taken modulo a typical length
		off := int64(150 + faultSel%1500)
		switch fault {
		case 3:
			cc.CutIncoming(simnet.CutFIN, off)
		case 4:
			cc.CutIncoming(simnet.CutRST, off)
		}
		c := imapclient.New(cc, nil)
		first := &clientRunner{r: r, c: c, tag: "caller0", uidLane: 1}
		runners = append(runners, first)
		first.issue(firstOp)
		first.issue(cop{Kind: opSelect})
		var dones []chan struct{}
		allDone := make(chan struct{})
		for i := 0; i < ncallers; i++ {
			cr := first
			if i > 0 {
				cr = &clientRunner{r: r, c: c, tag: fmt.Sprintf("caller%d", i), uidLane: i + 1}
				runners = append(runners, cr)
			}
			ops := lists[i]
			d := make(chan struct{})
			dones = append(dones, d)
			simrt.GoTask(cr.tag, func() {
				defer close(d)
				cr.run(ops)
			})
		}
		obsDone := make(chan struct{})
		simrt.GoTask("observer", func() {
			defer close(obsDone)
			for i := 0; i < 40; i++ {
				if idx, _, _ := simrt.Select(true, simrt.RecvCase(allDone)); idx == 0 {
					return
				}
				switch i % 3 {
				case 0:
					_ = c.State()
				case 1:
					// hold a snapshot across scheduling points: the struct returned by Mailbox() is read
					// without a lock by design, so the client must never write to it again
					if mb := c.Mailbox(); mb != nil {
						n1, f1 := mb.NumMessages, len(mb.Flags)
						for k := 0; k < 3; k++ {
							simrt.Yield(simrt.OpYield)
						}
						if n2, f2 := mb.NumMessages, len(mb.Flags); n1 != n2 || f1 != f2 {
							r.Violate("mailbox-snapshot-mutated", "SelectedMailbox", "a *SelectedMailbox obtained from Client.Mailbox() changed under its holder: NumMessages %d -> %d, len(Flags) %d -> %d (an unsynchronised write to memory that callers read without a lock)", n1, n2, f1, f2)
						}
					}
				default:
					if i < 6 {
						_ = c.Caps()
					}
				}
				simrt.Yield(simrt.OpYield)
			}
		})
		closerDone := make(chan struct{})
		simrt.GoTask("closer", func() {
			defer close(closerDone)
			if fault == 5 {
				cc.WaitIncoming(off)
				closeCalls++
				c.Close()
				closeReturns++
				r.Tracef("closer: Close() returned after %d bytes delivered", cc.InDelivered())
				return
			}
			// safety net for stalls and lost completions: close after a long silence
			if !waitOrTimeout(allDone, 8*time.Hour) {
				r.Tracef("closer: callers still blocked after 8 simulated hours; calling Close()")
				closeCalls++
				c.Close()
				closeReturns++
			}
		})
		for _, d := range dones {
			waitOrTimeout(d, 12*time.Hour)
		}
		close(allDone)
		waitOrTimeout(obsDone, time.Hour)
		waitOrTimeout(closerDone, time.Hour)
		rootCloseCalls++
		c.Close()
		rootCloseReturns++
		env.Shutdown()
	})
	if r.Res.Infra != "" {
		return
	}
	issued := 0
	for _, cr := range runners {
		if len(cr.recs) > 0 {
			issued++
		}
	}
	r.Nontrivial = issued >= 2
	res := r.Res
	if res.StepLimit {
		r.Violate("step-limit", "", "run did not quiesce within %d steps", res.Steps)
		return
	}
	// (1) every submitted command completes: no caller is blocked at quiescence; (3) no deadlock
	var hung, leaked []string
	for _, w := range res.Alive {
		where := normFunc(repoFrame(w.Funcs))
		if w.Task {
			if where == "" {
				where = "harness:" + w.Name
			}
			hung = append(hung, where)
		} else if strings.HasPrefix(where, "imapclient.") || strings.HasPrefix(where, "imapwire.") {
			leaked = append(leaked, where)
		}
	}
	if len(hung) > 0 {
		sortStrings(hung)
		hung = dropHarness(uniq(hung))
		oracle := "hang"
		if res.WaitCycle != "" {
			oracle = "deadlock"
		}
		r.Violate(oracle, strings.Join(hung, ","), "callers blocked at quiescence (a submitted command never completed):\n%s%s", describeAlive(res), res.WaitCycle)
	} else if len(leaked) > 0 {
		sortStrings(leaked)
		r.Violate("leak", strings.Join(uniq(leaked), ","), "client goroutines alive after Close returned:\n%s", describeAlive(res))
	}
	// (5) no panic (a double completion panics with "close of closed channel" / "send on closed channel")
	for _, p := range res.Panics {
		r.Violate("panic", panicClass(p), "%s", p)
	}
	// (2) tags are unique
	seen := map[string]int{}
	for _, ln := range SplitLines(cli.Written(), nil) {
		c := ParseCmd(ln)
		if c.Name == "" || !ln.Complete {
			continue
		}
		seen[c.Tag]++
		if seen[c.Tag] == 2 {
			r.Violate("duplicate-tag", "", "tag %s was used for more than one command: %q", c.Tag, clipStr(string(ln.Raw), 100))
		}
	}
	if closeCalls != closeReturns || rootCloseCalls != rootCloseReturns {
		r.Violate("hang", "imapclient.(*Client).Close", "Close was called %d times and returned %d times", closeCalls+rootCloseCalls, closeReturns+rootCloseReturns)
	}
	if len(r.viol) > 0 {
		r.Tracef("client->server: %q", clipStr(string(cli.Written()), 1500))
		r.Tracef("server->client (delivered %d): %q", cli.InDelivered(), clipStr(string(cli.Received()), 1500))
	}
}
