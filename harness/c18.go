package harness

import (
	"bytes"
	"fmt"
	"strings"
	"time"

	"github.com/emersion/go-imap/v2"
	"github.com/emersion/go-imap/v2/imapclient"
	"verif.local/simrt"
	"verif.local/simrt/simnet"
)

// C18 — the client only uses syntax the server advertised and respects literal synchronisation.
// Legality rules: DESIGN.md Appendix D (RFC 9051 4.3, RFC 7888, RFC 6855).

func init() {
	register(&Prop{
		ID:    "C18",
		Level: "exploration",
		Rule: "case = (pre- and post-authentication capability sets over {none, LITERAL-, LITERAL+, IMAP4rev2, UTF8=ACCEPT, ENABLE} with pre a subset of post, whether the caller enables UTF8=ACCEPT / IMAP4rev2, sequence of <=20 client calls with strings over the adversarial alphabet (8-bit, CR, LF, quotes, lengths around 4096) and APPEND payloads of 0..9000 bytes carrying unique markers, scripted server decisions for every synchronising literal: continuation at once, continuation after a delay, or tagged NO/BAD), segmentation and schedule. " +
			"Oracle: the client's byte stream tokenised by the independent scanner and judged against the capability data that had been sent, plus event-order checks on the simulator's global step numbering. Non-trivial: at least one literal or 8-bit string was sent. Distinct: distinct event-log hashes.",
		Components:   "real: imapclient.Client, internal/imapwire encoder, imap.CapSet (woven); stub: scripted server, network, clock, scheduler",
		Assumptions:  []string{"a command is judged against the capability set of the server state in which its first byte is received; the server never withdraws syntax it offered (pre-auth set is a subset of the post-auth set)"},
		QuickRuns:    6000,
		ThoroughRuns: 200000,
		RaceDivisor:  6,
		RaceScope:    []string{"imapclient.", "imapwire.", "utf7.", "internal."},
		Run:          runC18,
	})
}

type c18caps struct {
	litPlus, litMinus, rev2, utf8, enable bool
}

func (c c18caps) line() string {
	s := []string{"IMAP4rev1"}
	if c.rev2 {
		s = append(s, "IMAP4rev2")
	}
	if c.litPlus {
		s = append(s, "LITERAL+")
	}
	if c.litMinus {
		s = append(s, "LITERAL-")
	}
	if c.utf8 {
		s = append(s, "UTF8=ACCEPT")
	}
	if c.enable {
		s = append(s, "ENABLE")
	}
	return strings.Join(append(s, "UIDPLUS", "MOVE", "NAMESPACE", "ESEARCH", "UNAUTHENTICATE"), " ")
}

func runC18(r *R) {
	t := r.P
	post := c18caps{litPlus: t.Choose(3) == 0, litMinus: t.Choose(3) == 0, rev2: t.Choose(3) == 0, utf8: t.Choose(2) == 0, enable: true}
	pre := c18caps{litPlus: post.litPlus && t.Choose(2) == 0, litMinus: post.litMinus && t.Choose(2) == 0, rev2: post.rev2 && t.Choose(2) == 0, enable: true}
	greetCaps := t.Choose(2) == 0 // capabilities in the greeting, or only on request
	enableWhat := t.Choose(3)     // 0 nothing, 1 UTF8=ACCEPT, 2 IMAP4rev2
	netMode := t.Choose(4)
	n := 1 + t.Choose(20)
	// optionally the caller returns to the not-authenticated state in the middle (RFC 8437) and logs in again:
	// everything that was enabled is off again, and the pre-authentication capabilities apply in between
	reauthAt := -1
	if t.Choose(4) == 0 {
		reauthAt = t.Choose(n)
	}
	// optionally a second ENABLE in the middle (RFC 5161: its ENABLED response lists only what it newly enabled,
	// possibly nothing; what was enabled before stays enabled)
	enableAgainAt, enableAgainWhat := -1, t.Choose(2)
	if t.Choose(4) == 0 {
		enableAgainAt = t.Choose(n)
	}
	var ops []c02op
	selected := false
	for i := 0; i < n; i++ {
		if !selected && t.Choose(2) == 0 {
			ops = append(ops, c02op{Kind: "Select", S: []string{"INBOX"}})
			selected = true
			continue
		}
		o := genC02Op(t, selected)
		if o.Kind == "Append" {
			// unique marker per payload, so that payload bytes can never be confused with command text
			m := []byte(fmt.Sprintf("\x01PL%d;", i))
			for j := range o.Payload {
				o.Payload[j] = m[j%len(m)]
			}
		}
		switch o.Kind {
		case "Select":
			selected = true
		case "Unselect", "Close":
			selected = false
		case "Search":
			// a multi-byte search string around the 4096-byte LITERAL- limit: the limit counts bytes, not characters
			if o.Crit != nil && t.Choose(4) == 0 {
				o.Crit.Body = append(o.Crit.Body, strings.Repeat("é", []int{2040, 2047, 2048, 2049, 2500, 4096}[t.Choose(6)]))
			}
		case "Create", "Delete", "Subscribe", "Unsubscribe", "Status":
			// a string argument longer than the LITERAL- limit outside APPEND (the scripted server accepts any size)
			if t.Choose(5) == 0 {
				o.S[0] = strings.Repeat("m", 4090+t.Choose(12)) + []string{"", "é"}[t.Choose(2)]
			}
		}
		ops = append(ops, o)
	}
	// the server's decisions for synchronising literals
	type litDecision struct {
		refuse string
		delay  time.Duration
	}
	var decisions []litDecision
	for i := 0; i < 64; i++ {
		d := litDecision{}
		switch t.Choose(5) {
		case 0:
			d.refuse = []string{"NO [TOOBIG] too big", "BAD no literals please", "NO [TRYCREATE] no such mailbox"}[t.Choose(3)]
		case 1:
			d.delay = []time.Duration{time.Second, 20 * time.Second, 4 * time.Minute}[t.Choose(3)]
		}
		decisions = append(decisions, d)
	}
	user, pass := genStr(t, false, false), genStr(t, false, true)
	cfg := r.SchedConfig()
	var cli *simnet.Conn
	var srv *scriptSrv
	var authOff, enabledOff int64 = -1, -1  // offsets in the client->server stream at which the server state changed
	var unauthOff, reauthOff int64 = -1, -1 // UNAUTHENTICATE received; LOGIN received after it
	var utf8Off, utf8SentOff int64 = -1, -1 // UTF8=ACCEPT enabled (client stream offset); its ENABLED response sent (server stream offset)
	var enabledSentOff int64 = -1           // offset in the server->client stream after the ENABLED response
	// the same two offsets for the first ENABLE after an UNAUTHENTICATE (which turns everything off again)
	var enabledOff2, enabledSentOff2 int64 = -1, -1
	var srvPipe int
	r.Sim(cfg, func() {
		r.Net.KeepLog = true
		cc, sc := r.Net.Pair("cli", "srv")
		cli = cc
		srvPipe = sc.OutPipeID()
		switch netMode {
		case 1:
			sc.SetSegMode(2)
		case 2:
			cc.SetShortReads(true)
		case 3:
			cc.SetSendBuffer(100)
			sc.SetShortReads(true)
		}
		srv = newScriptSrv(r, sc)
		nlit := 0
		srv.onSyncLiteral = func(tag string, size int64) (string, time.Duration) {
			d := decisions[nlit%len(decisions)]
			nlit++
			if d.refuse != "" {
				return tag + " " + d.refuse, d.delay
			}
			return "", d.delay
		}
		srvDone := make(chan struct{})
		simrt.GoTask("server", func() {
			defer close(srvDone)
			defer sc.Close()
			if greetCaps {
				srv.send("* OK [CAPABILITY " + pre.line() + "] ready")
			} else {
				srv.send("* OK ready")
			}
			authed := false
			srvEnabled := map[string]bool{}
			for {
				c, ok := srv.readCommand()
				if !ok {
					return
				}
				if c.Refused {
					continue
				}
				caps := pre
				if authed {
					caps = post
				}
				switch c.Name {
				case "CAPABILITY":
					srv.send("* CAPABILITY "+caps.line(), c.Tag+" OK done")
				case "UNAUTHENTICATE":
					authed = false
					srvEnabled = map[string]bool{}
					if unauthOff < 0 {
						unauthOff = int64(len(srv.all) - len(srv.buf))
					}
					srv.send(c.Tag + " OK back to the not authenticated state")
				case "LOGIN":
					authed = true
					if authOff < 0 {
						authOff = int64(len(srv.all) - len(srv.buf))
					}
					if unauthOff >= 0 && reauthOff < 0 {
						reauthOff = int64(len(srv.all) - len(srv.buf))
					}
					if t2 := len(c.Raw) % 2; t2 == 0 {
						srv.send(c.Tag + " OK [CAPABILITY " + post.line() + "] logged in")
					} else {
						srv.send(c.Tag + " OK logged in")
					}
				case "ENABLE":
					var en []string
					for _, a := range c.Args {
						up := strings.ToUpper(a.S)
						if ((up == "UTF8=ACCEPT" && caps.utf8) || (up == "IMAP4REV2" && caps.rev2)) && !srvEnabled[up] {
							srvEnabled[up] = true
							en = append(en, up)
							if unauthOff >= 0 {
								if enabledOff2 < 0 {
									enabledOff2 = int64(len(srv.all) - len(srv.buf))
								}
							} else if enabledOff < 0 {
								enabledOff = int64(len(srv.all) - len(srv.buf))
							}
							if up == "UTF8=ACCEPT" && utf8Off < 0 {
								utf8Off = int64(len(srv.all) - len(srv.buf))
							}
						}
					}
					srv.send("* ENABLED "+strings.Join(en, " "), c.Tag+" OK enabled")
					if len(en) > 0 && unauthOff >= 0 {
						if enabledSentOff2 < 0 {
							enabledSentOff2 = int64(srv.sent.Len())
						}
					} else if len(en) > 0 && enabledSentOff < 0 {
						enabledSentOff = int64(srv.sent.Len())
					}
					if utf8Off >= 0 && utf8SentOff < 0 {
						utf8SentOff = int64(srv.sent.Len())
					}
				case "LOGOUT":
					srv.send("* BYE bye", c.Tag+" OK bye")
					return
				case "SELECT", "EXAMINE":
					srv.send("* 3 EXISTS", "* FLAGS (\\Seen)", c.Tag+" OK [READ-WRITE] selected")
				case "NAMESPACE":
					srv.send(`* NAMESPACE (("" "/")) NIL NIL`, c.Tag+" OK done")
				default:
					srv.send(c.Tag + " OK done")
				}
			}
		})
		c := imapclient.New(cc, nil)
		callerDone := make(chan struct{})
		simrt.GoTask("caller", func() {
			defer close(callerDone)
			if err := c.Login(user, pass).Wait(); err != nil {
				r.Tracef("login failed: %v", err)
				if !isIMAPStatusErr(err) {
					return
				}
			}
			switch enableWhat {
			case 1:
				c.Enable(imap.CapUTF8Accept).Wait()
			case 2:
				c.Enable(imap.CapIMAP4rev2).Wait()
			}
			for oi, o := range ops {
				if oi == enableAgainAt {
					r.Probe("second_enable")
					if enableAgainWhat == 0 {
						c.Enable(imap.CapUTF8Accept).Wait()
					} else {
						c.Enable(imap.CapIMAP4rev2).Wait()
					}
				}
				if oi == reauthAt {
					r.Probe("unauthenticate_then_login")
					if err := c.Unauthenticate().Wait(); err != nil && !isIMAPStatusErr(err) {
						return
					}
					if err := c.Login(user, pass).Wait(); err != nil && !isIMAPStatusErr(err) {
						return
					}
					c.Select("INBOX", nil).Wait()
				}
				err := c02Issue(c, o)
				r.Tracef("%s -> %v", clipStr(o.String(), 200), err)
				if err != nil && !isIMAPStatusErr(err) {
					return
				}
			}
			c.Logout().Wait()
		})
		waitOrTimeout(callerDone, 24*time.Hour)
		c.Close()
		waitOrTimeout(srvDone, time.Hour)
	})
	if r.Res.Infra != "" || cli == nil {
		return
	}
	r.CheckLiveness(false)
	c18Judge(r, cli, srv, pre, post, authOff, enabledOff, enabledSentOff, srvPipe, unauthOff, reauthOff, utf8Off, utf8SentOff, enabledOff2, enabledSentOff2)
	if len(r.viol) > 0 {
		r.Tracef("pre-auth caps: %s | post-auth caps: %s | greeting caps=%v enable=%d", pre.line(), post.line(), greetCaps, enableWhat)
		r.Tracef("client->server: %q", clipStr(string(cli.Written()), 2500))
		r.Tracef("server->client: %q", clipStr(srv.sent.String(), 1500))
	}
}

func c18Judge(r *R, cli *simnet.Conn, srv *scriptSrv, pre, post c18caps, authOff, enabledOff, enabledSentOff int64, srvPipe int, unauthOff, reauthOff, utf8Off, utf8SentOff, enabledOff2, enabledSentOff2 int64) {
	stream := cli.Written()
	// literal decisions in stream order tell the splitter which synchronising literals were followed by a payload
	var syncEvents []srvLitEvent
	for _, e := range srv.contSteps {
		if !e.NonSync {
			syncEvents = append(syncEvents, e)
		}
	}
	lines := SplitLines(stream, func(k int, size int64) bool {
		if k < len(syncEvents) {
			return !syncEvents[k].Refused
		}
		return true
	})
	// step at which each byte offset of the client's stream was written, and at which each byte of the
	// server's stream was delivered to the client
	type ev struct {
		off  int64
		step int
	}
	var cw, sd []ev
	cliPipe := cli.OutPipeID()
	for _, e := range r.Net.Log {
		if e.Pipe == cliPipe && e.Kind == 'w' {
			cw = append(cw, ev{e.Off, e.Step})
		}
		if e.Pipe == srvPipe && e.Kind == 'd' {
			sd = append(sd, ev{e.Off, e.Step})
		}
	}
	writtenAt := func(off int64) int { // step of the write that produced stream byte number off (1-based)
		for _, e := range cw {
			if e.off >= off {
				return e.step
			}
		}
		return -1
	}
	deliveredAt := func(off int64) int {
		for _, e := range sd {
			if e.off >= off {
				return e.step
			}
		}
		return 1 << 30
	}
	for _, ln := range lines {
		caps := pre
		if authOff >= 0 && int64(ln.Start) >= authOff {
			caps = post
		}
		if unauthOff >= 0 && int64(ln.Start) >= unauthOff && (reauthOff < 0 || int64(ln.Start) < reauthOff) {
			caps = pre
		}
		for _, l := range ln.Literals {
			if l.NonSync {
				r.Nontrivial = true
				r.Probe("nonsync_literal")
				legal := caps.litPlus || ((caps.litMinus || caps.rev2) && l.Size <= 4096)
				if !legal {
					r.Violate("illegal-nonsync-literal", fmt.Sprintf("size<=4096:%v", l.Size <= 4096), "the client sent a non-synchronising literal {%d+} although the server (state caps: %s) had advertised neither LITERAL+ nor, for this size, LITERAL-/IMAP4rev2: %q", l.Size, caps.line(), clipStr(string(ln.Raw), 120))
				}
			} else {
				r.Nontrivial = true
				r.Probe("sync_literal")
			}
		}
		// RFC 6855 section 3: once UTF8=ACCEPT is enabled, SEARCH must not carry a charset specification
		if utf8Off >= 0 && int64(ln.Start) >= utf8Off && !(unauthOff >= 0 && int64(ln.Start) >= unauthOff) && writtenAt(int64(ln.Start)+1) > deliveredAt(utf8SentOff) {
			pc := ParseCmd(ln)
			if strings.HasSuffix(pc.Name, "SEARCH") {
				r.Probe("search_with_utf8_accept")
				for i, a := range pc.Args {
					if a.Kind == 'a' && strings.EqualFold(a.S, "CHARSET") && i < 3 {
						r.Violate("charset-after-utf8-accept", "", "UTF8=ACCEPT is enabled (and the client had received the ENABLED response) but the client sent a SEARCH with a charset specification: %q", clipStr(string(ln.Raw), 160))
					}
				}
			}
		}
		// quoted strings: 8-bit only when permitted; CR/LF/NUL never
		if ln.Complete {
			en, enSent := enabledOff, enabledSentOff
			if unauthOff >= 0 && int64(ln.Start) >= unauthOff {
				// RFC 8437: UNAUTHENTICATE turns off everything that ENABLE had turned on; only an ENABLE after it counts
				en, enSent = enabledOff2, enabledSentOff2
			}
			c18Quoted(r, ln, caps, en, enSent, writtenAt, deliveredAt)
		}
	}
	// synchronisation: payload only after the continuation request was delivered; none after a refusal
	for _, e := range syncEvents {
		if e.Refused {
			r.Probe("sync_literal_refused")
			continue
		}
		r.Probe("sync_literal_accepted")
		if e.Size == 0 {
			continue
		}
		w := writtenAt(int64(e.HdrEnd) + 1)
		// the continuation request is the server line written at AnswerStep; find its end offset
		if w >= 0 && w <= e.AnswerStep {
			r.Violate("payload-before-continuation", "", "the first payload byte of the synchronising literal {%d} of %s was written at step %d, but the server only wrote its continuation request at step %d", e.Size, e.Tag, w, e.AnswerStep)
		}
		_ = deliveredAt
	}
	// after a refusal, none of that literal's payload may ever be written: APPEND payloads carry unique markers
	for _, e := range syncEvents {
		if !e.Refused {
			continue
		}
		rest := stream
		if e.HdrEnd < len(rest) {
			rest = rest[e.HdrEnd:]
		}
		// the marker of the refused APPEND is derived from its position in the plan; detect any
		// payload-looking run right after the refusal point instead: marker bytes start with \x01PL
		next := rest
		if i := bytes.Index(next, []byte("\r\n")); i >= 0 {
			next = next[:i]
		}
		if bytes.HasPrefix(next, []byte("\x01PL")) || (len(next) > 0 && int64(len(next)) >= e.Size && e.Size > 64 && !bytes.Contains(next[:8], []byte(" "))) {
			r.Violate("payload-after-refusal", "", "the server refused the synchronising literal {%d} of %s with a tagged response, but the client wrote payload bytes afterwards: %q", e.Size, e.Tag, clipStr(string(rest), 80))
		}
	}
}

func c18Quoted(r *R, ln WLine, caps c18caps, enabledOff, enabledSentOff int64, writtenAt func(int64) int, deliveredAt func(int64) int) {
	raw := ln.Raw
	inLit := func(i int) bool {
		for _, l := range ln.Literals {
			s := l.Start - ln.Start
			if i >= s && int64(i) < int64(s)+l.Size {
				return true
			}
		}
		return false
	}
	in := false
	for i := 0; i < len(raw); i++ {
		if inLit(i) {
			continue
		}
		c := raw[i]
		if !in {
			if c == '"' {
				in = true
			}
			continue
		}
		switch {
		case c == '\\':
			i++
		case c == '"':
			in = false
		case c == '\r' || c == '\n' || c == 0:
			r.Violate("forbidden-octet-in-quoted", fmt.Sprintf("%#x", c), "the client wrote octet %#x inside a quoted string: %q", c, clipStr(string(raw), 160))
			return
		case c >= 0x80:
			r.Nontrivial = true
			r.Probe("eight_bit_quoted")
			allowed := caps.rev2
			if !allowed && enabledOff >= 0 && int64(ln.Start) >= enabledOff {
				// UTF8=ACCEPT enabled: the ENABLED response must have been delivered before the command's first byte
				if writtenAt(int64(ln.Start)+1) > deliveredAt(enabledSentOff) {
					allowed = true
				}
			}
			if !allowed {
				r.Violate("eight-bit-in-quoted", "", "the client wrote 8-bit octets inside a quoted string although the server (state caps: %s) offers no IMAP4rev2 and UTF8=ACCEPT had not been enabled before the command: %q", caps.line(), clipStr(string(raw), 160))
				return
			}
		}
	}
}
