// Package harness contains the simulated checks of the go-imap properties: scripted peers, stub
// sessions, the independent wire scanner, reference models, oracles, and the run/shrink/replay engine.
package harness

import (
	"encoding/json"
	"fmt"
	"os"
	"path/filepath"
	"runtime"
	"runtime/debug"
	"sort"
	"strconv"
	"strings"
	"testing"
	"testing/synctest"
	"time"

	"verif.local/simrt"
	"verif.local/simrt/simnet"
)

// Violation is one oracle failure. Oracle+Class form the signature used for shrinking, replay
// confirmation and known-finding matching; Detail is free text.
type Violation struct {
	Oracle string `json:"oracle"`
	Class  string `json:"class"`
	Detail string `json:"detail"`
}

func (v Violation) Sig() string { return v.Oracle + ":" + v.Class }

// Prop describes one property check.
type Prop struct {
	ID           string
	Level        string // exploration | fault_enumeration
	Rule         string // how cases are generated and what makes one non-trivial / distinct
	Components   string // which components ran real code and which ran a stub
	Assumptions  []string
	QuickRuns    int
	ThoroughRuns int
	RaceDivisor  int // race build runs Runs/RaceDivisor cases (0: race build not used)
	Run          func(r *R)
	// RaceScope restricts the race oracle to reports in which at least one access is in one of
	// these packages (prefix of the short function name, e.g. "imapclient."); empty: any go-imap code.
	RaceScope []string
	// Forced returns values forced onto the start of the plan tape of run idx (nil: none); it is how
	// fault_enumeration checks enumerate (scenario, fault kind, offset) triples.
	Forced func(tier string, idx int) []uint32
}

var props = map[string]*Prop{}

func register(p *Prop) { props[p.ID] = p }

// R is the context of one simulated run.
type R struct {
	Prop   *Prop
	P      *simrt.Tape // plan tape: every generated value
	S      *simrt.Tape // schedule tape: every runtime choice
	Tier   string
	Net    *simnet.Net
	Res    simrt.Result
	t      *testing.T
	viol   []Violation
	trace  []string
	Probes map[string]int
	// Nontrivial is set by the property when the run executed at least one workload operation.
	Nontrivial bool
	SimTime    time.Duration
	Replaying  bool
	logs       [simrt.MaxWorkers]*taskLog
}

// taskLog is the part of R that tasks write during a run. Each worker has its own (indexed by
// its scheduler id) so that harness bookkeeping shared between caller tasks neither shows up as
// data races in the race-visible build nor adds happens-before edges between callers.
type taskLog struct {
	viol   []Violation
	trace  []stepLine
	probes map[string]int
}

type stepLine struct {
	step int
	s    string
}

func (r *R) tl() *taskLog {
	id := simrt.CurrentID()
	if id < 0 {
		return nil
	}
	if r.logs[id] == nil {
		r.logs[id] = &taskLog{probes: map[string]int{}}
	}
	return r.logs[id]
}

func (r *R) Violate(oracle, class, format string, args ...interface{}) {
	v := Violation{Oracle: oracle, Class: class, Detail: fmt.Sprintf(format, args...)}
	if l := r.tl(); l != nil {
		l.viol = append(l.viol, v)
		return
	}
	r.viol = append(r.viol, v)
}

func (r *R) Tracef(format string, args ...interface{}) {
	if l := r.tl(); l != nil {
		if len(l.trace) < 300 {
			l.trace = append(l.trace, stepLine{simrt.Step(), fmt.Sprintf(format, args...)})
		}
		return
	}
	if len(r.trace) < 400 {
		r.trace = append(r.trace, fmt.Sprintf(format, args...))
	}
}

func (r *R) Probe(name string) {
	if l := r.tl(); l != nil {
		l.probes[name]++
		return
	}
	r.Probes[name]++
}

// mergeLogs folds the per-worker logs into R after a run (trace lines in global step order).
func (r *R) mergeLogs() {
	var lines []stepLine
	for i, l := range r.logs {
		if l == nil {
			continue
		}
		r.viol = append(r.viol, l.viol...)
		lines = append(lines, l.trace...)
		for k, v := range l.probes {
			r.Probes[k] += v
		}
		r.logs[i] = nil
	}
	sort.SliceStable(lines, func(i, j int) bool { return lines[i].step < lines[j].step })
	for _, l := range lines {
		if len(r.trace) < 400 {
			r.trace = append(r.trace, l.s)
		}
	}
}

// Sim runs root as the first task of a fresh bubble under the scheduler.
func (r *R) Sim(cfg simrt.Config, root func()) simrt.Result {
	var res simrt.Result
	r.Net = simnet.New()
	// The bubble runs in its own goroutine: when the race detector has reported something during
	// the run, synctest.Test ends with t.FailNow (a Goexit), which must not end the worker loop.
	bubbleDone := make(chan struct{})
	go func() {
		defer close(bubbleDone)
		defer func() {
			if v := recover(); v != nil {
				s := fmt.Sprint(v)
				if !strings.Contains(s, "deadlock") {
					res.Infra = "panic around bubble: " + s + "\n" + string(debug.Stack())
				}
			}
		}()
		synctest.Test(r.t, func(t *testing.T) {
			res = simrt.Run(r.S, cfg, func(*simrt.Sim) simrt.Hook { return r.Net }, root)
		})
	}()
	<-bubbleDone
	r.mergeLogs()
	r.Res = res
	r.SimTime += res.SimElapsed
	if r.S.Over {
		r.Res.StepLimit = true
	}
	return r.Res
}

// SchedConfig draws the scheduling policy of a run from the plan tape.
func (r *R) SchedConfig() simrt.Config {
	sw := []int{0, 10, 100, 300, 500, 1000}[r.P.Choose(6)]
	cfg := simrt.Config{SwitchPermille: sw, MaxSteps: 150000}
	// 1 run in 3: one writer loses the CPU right after one of its network writes (see simrt.Config.DemoteWrite)
	if r.P.Choose(3) == 2 {
		cfg.DemoteWrite = 1 + r.P.Choose(40)
		cfg.DemoteLen = []int{60, 400, 3000}[r.P.Choose(3)]
	}
	return cfg
}

// --- generic oracles over a simrt.Result ---------------------------------------------------

// repoFrame returns the innermost go-imap function of a stack ("" if none).
func repoFrame(funcs []string) string {
	for _, f := range funcs {
		if isRepoFunc(f) {
			return f
		}
	}
	return ""
}

func isRepoFunc(f string) bool {
	for _, p := range []string{"imapclient.", "imapserver.", "imapmemserver.", "imapwire.", "imapnum.", "utf7.", "imap.", "internal."} {
		if strings.HasPrefix(f, p) {
			return true
		}
	}
	return false
}

// normFunc strips closure numbering so that signatures do not depend on incidental code motion.
func normFunc(f string) string {
	for {
		i := strings.LastIndex(f, ".func")
		if i < 0 {
			break
		}
		f = f[:i]
	}
	f = strings.TrimSuffix(f, "[...]")
	return f
}

// CheckLiveness reports hangs (unfinished tasks at quiescence), leaks (library goroutines alive
// after teardown) and panics that escaped a goroutine.
func (r *R) CheckLiveness(leaksMatter bool) {
	res := r.Res
	if res.Infra != "" {
		return
	}
	if res.StepLimit {
		// bounded run: inconclusive for liveness; spin detection is a separate oracle
		r.Violate("step-limit", "run exceeded step bound", "run did not quiesce within %d steps", res.Steps)
		return
	}
	var hung, leaked []string
	for _, w := range res.Alive {
		where := normFunc(repoFrame(w.Funcs))
		if where == "" {
			where = "harness:" + w.Name
		}
		if w.Task {
			hung = append(hung, where)
		} else {
			leaked = append(leaked, where)
		}
	}
	if len(hung) > 0 {
		sort.Strings(hung)
		hung = uniq(hung)
		d := describeAlive(res)
		if res.WaitCycle != "" {
			r.Violate("deadlock", strings.Join(hung, ","), "wait-for cycle: %s\n%s", res.WaitCycle, d)
		} else {
			r.Violate("hang", strings.Join(hung, ","), "tasks blocked at quiescence:\n%s", d)
		}
	} else if len(leaked) > 0 && leaksMatter {
		sort.Strings(leaked)
		leaked = uniq(leaked)
		r.Violate("leak", strings.Join(leaked, ","), "library goroutines alive after teardown:\n%s", describeAlive(res))
	}
	for _, p := range res.Panics {
		r.Violate("panic", panicClass(p), "%s", p)
	}
}

func panicClass(p string) string {
	// first line: worker N "name" panicked: <value>
	line := p
	if i := strings.Index(line, "\n"); i >= 0 {
		line = line[:i]
	}
	if i := strings.Index(line, "panicked: "); i >= 0 {
		line = line[i+len("panicked: "):]
	}
	line = stripNumbers(line)
	fn := ""
	for _, l := range strings.Split(p, "\n") {
		if l == "" || l[0] == '\t' || !strings.Contains(l, "(") {
			continue
		}
		if j := strings.LastIndex(l, "("); j > 0 {
			f := l[:j]
			if k := strings.LastIndex(f, "/"); k >= 0 {
				f = f[k+1:]
			}
			if isRepoFunc(f) {
				fn = normFunc(f)
				break
			}
		}
	}
	return line + " in " + fn
}

func stripNumbers(s string) string {
	var b strings.Builder
	prev := false
	for _, c := range s {
		if c >= '0' && c <= '9' {
			if !prev {
				b.WriteByte('N')
			}
			prev = true
			continue
		}
		prev = false
		b.WriteRune(c)
	}
	return b.String()
}

func uniq(s []string) []string {
	var out []string
	for i, x := range s {
		if i == 0 || x != s[i-1] {
			out = append(out, x)
		}
	}
	return out
}

func describeAlive(res simrt.Result) string {
	var b strings.Builder
	for _, w := range res.Alive {
		fmt.Fprintf(&b, "  worker %d %q task=%v %s %s\n", w.ID, w.Name, w.Task, w.State, w.WaitOn)
		if os.Getenv("VERIF_STACKS") != "" {
			fmt.Fprintf(&b, "%s\n", w.Stack)
			continue
		}
		n := 0
		for _, f := range w.Funcs {
			if strings.HasPrefix(f, "simrt.") || strings.HasPrefix(f, "runtime.") {
				continue
			}
			fmt.Fprintf(&b, "      %s\n", f)
			if n++; n >= 8 {
				break
			}
		}
	}
	return b.String()
}

// --- execution -----------------------------------------------------------------------------

type outcome struct {
	viol       []Violation
	hash       uint64
	steps      int
	nontrivial bool
	infra      string
	r          *R
}

func execute(t *testing.T, p *Prop, tier string, plan, sched *simrt.Tape) (o outcome) {
	r := &R{Prop: p, P: plan, S: sched, Tier: tier, t: t, Probes: map[string]int{}, Replaying: plan.Replay}
	func() {
		defer func() {
			if v := recover(); v != nil {
				o.infra = fmt.Sprintf("harness panic: %v\n%s", v, debug.Stack())
			}
		}()
		p.Run(r)
	}()
	o.r = r
	o.viol = r.viol
	o.hash = r.Res.Hash
	o.steps = r.Res.Steps
	o.nontrivial = r.Nontrivial
	if r.Res.Infra != "" && o.infra == "" {
		o.infra = r.Res.Infra
	}
	return o
}

// ReplayFile is the on-disk form of a (minimised) counter-example.
type ReplayFile struct {
	Property  string   `json:"property"`
	Tier      string   `json:"tier"`
	BaseSeed  uint64   `json:"base_seed"`
	RunIndex  int      `json:"run_index"`
	Signature string   `json:"signature"`
	Oracle    string   `json:"oracle"`
	Class     string   `json:"class"`
	Detail    string   `json:"detail"`
	Plan      []uint32 `json:"plan_tape"`
	Sched     []uint32 `json:"sched_tape"`
	Hash      string   `json:"event_log_hash"`
	Steps     int      `json:"steps"`
	Shrunk    bool     `json:"minimised"`
	ShrinkRun int      `json:"shrink_executions"`
	Race      bool     `json:"race_build"`
	Trace     []string `json:"trace"`
}

func trimZeros(v []uint32) []uint32 {
	n := len(v)
	for n > 0 && v[n-1] == 0 {
		n--
	}
	return v[:n]
}

func hasSig(vs []Violation, sig string) (Violation, bool) {
	for _, v := range vs {
		if v.Sig() == sig {
			return v, true
		}
	}
	return Violation{}, false
}

// shrink minimises (plan, sched) while the violation signature persists.
func shrink(t *testing.T, p *Prop, tier string, plan, sched []uint32, sig string, maxExec int, maxWall time.Duration) ([]uint32, []uint32, int) {
	start := time.Now()
	execs := 0
	try := func(pl, sc []uint32) bool {
		if execs >= maxExec || time.Since(start) > maxWall {
			return false
		}
		execs++
		o := execute(t, p, tier, simrt.ReplayTape(pl), simrt.ReplayTape(sc))
		if o.infra != "" {
			return false
		}
		_, ok := hasSig(o.viol, sig)
		return ok
	}
	plan, sched = trimZeros(plan), trimZeros(sched)
	// 1. calm schedule
	if len(sched) > 0 && try(plan, nil) {
		sched = nil
	}
	shrinkTape := func(cur []uint32, other []uint32, isPlan bool) []uint32 {
		run := func(c []uint32) bool {
			if isPlan {
				return try(c, other)
			}
			return try(other, c)
		}
		// truncate
		for n := len(cur) / 2; n >= 1 && len(cur) > 0; n /= 2 {
			for len(cur) >= n {
				c := append([]uint32{}, cur[:len(cur)-n]...)
				if !run(c) {
					break
				}
				cur = trimZeros(c)
			}
		}
		// delete chunks
		for n := len(cur) / 2; n >= 1; n /= 2 {
			for i := 0; i+n <= len(cur); {
				c := append(append([]uint32{}, cur[:i]...), cur[i+n:]...)
				if run(c) {
					cur = trimZeros(c)
				} else {
					i += n
				}
				if execs >= maxExec {
					return cur
				}
			}
		}
		// zero chunks
		for n := len(cur) / 2; n >= 1; n /= 2 {
			for i := 0; i+n <= len(cur); i += n {
				allZero := true
				for _, v := range cur[i : i+n] {
					if v != 0 {
						allZero = false
					}
				}
				if allZero {
					continue
				}
				c := append([]uint32{}, cur...)
				for j := i; j < i+n; j++ {
					c[j] = 0
				}
				if run(c) {
					cur = trimZeros(c)
					if i+n > len(cur) {
						break
					}
				}
				if execs >= maxExec {
					return cur
				}
			}
		}
		// lower single values
		for i := 0; i < len(cur); i++ {
			for cur[i] > 0 {
				c := append([]uint32{}, cur...)
				if c[i] > 1 {
					c[i] /= 2
				} else {
					c[i] = 0
				}
				if !run(c) {
					break
				}
				cur = c
				if len(trimZeros(cur)) < len(cur) {
					cur = trimZeros(cur)
					break
				}
			}
			if execs >= maxExec {
				return cur
			}
		}
		return cur
	}
	plan = shrinkTape(plan, sched, true)
	sched = shrinkTape(sched, plan, false)
	return plan, sched, execs
}

// --- worker process ------------------------------------------------------------------------

type workerSummary struct {
	Property     string         `json:"property"`
	Worker       int            `json:"worker"`
	Runs         int            `json:"runs"`
	NextIndex    int            `json:"next_index"`
	Finished     bool           `json:"finished"`
	Hashes       []string       `json:"hashes"` // distinct event-log hashes of non-trivial runs
	Steps        int64          `json:"steps"`
	Switches     int64          `json:"switches"`
	SimSeconds   float64        `json:"sim_seconds"`
	WallSeconds  float64        `json:"wall_seconds"`
	Faults       map[string]int `json:"faults"`
	Probes       map[string]int `json:"probes"`
	Violations   []violationRec `json:"violations"`
	Infra        []string       `json:"infra"`
	DetChecks    int            `json:"determinism_rechecks"`
	DetMismatch  int            `json:"determinism_mismatches"`
	Samples      []sample       `json:"samples"`
	StepLimited  int            `json:"step_limited"`
	RaceBuild    bool           `json:"race_build"`
	RaceArtefact int            `json:"race_artefacts"`
	Level        string         `json:"level"`
	Rule         string         `json:"rule"`
	Components   string         `json:"components"`
	Assumptions  []string       `json:"assumptions"`
}

type violationRec struct {
	Signature string `json:"signature"`
	Oracle    string `json:"oracle"`
	Class     string `json:"class"`
	Detail    string `json:"detail"`
	Replay    string `json:"replay"`
	RunIndex  int    `json:"run_index"`
	Count     int    `json:"count"`
}

type sample struct {
	RunIndex int      `json:"run_index"`
	Steps    int      `json:"steps"`
	Hash     string   `json:"hash"`
	Trace    []string `json:"trace"`
}

func envInt(name string, def int) int {
	if s := os.Getenv(name); s != "" {
		if v, err := strconv.Atoi(s); err == nil {
			return v
		}
	}
	return def
}

func addStats(dst map[string]int, st simnet.Stats) {
	dst["segmentation"] += st.Segments
	dst["short_read"] += st.ShortReads
	dst["back_pressure"] += st.BackPressure
	dst["fin_cut"] += st.FIN
	dst["rst_cut"] += st.RST
	dst["stall"] += st.Stall
	dst["write_error"] += st.WriteErr
	dst["read_deadline_fired"] += st.ReadTimeout
	dst["write_deadline_fired"] += st.WriteTimeout
	dst["epipe"] += st.EPIPE
	dst["accept_temp_error"] += st.AcceptTemp
}

func propHash(id string) uint64 {
	var h uint64 = 1469598103934665603
	for i := 0; i < len(id); i++ {
		h ^= uint64(id[i])
		h *= 1099511628211
	}
	return h
}

// TestSim is the entry point of a worker process; the supervisor (check.py) sets the environment.
func simMain(t *testing.T) {
	id := os.Getenv("VERIF_PROP")
	if id == "" {
		t.Skip("VERIF_PROP not set")
	}
	p := props[id]
	if p == nil {
		fmt.Printf("INFRA unknown property %s\n", id)
		os.Exit(2)
	}
	debug.SetMaxStack(64 << 20)
	tier := os.Getenv("VERIF_TIER")
	if tier == "" {
		tier = "quick"
	}
	base := uint64(envInt("VERIF_SEED", 1))
	outDir := os.Getenv("VERIF_OUT")
	if outDir == "" {
		outDir = "."
	}
	if rp := os.Getenv("VERIF_REPLAY"); rp != "" {
		replayMain(t, p, rp)
		return
	}
	worker, nworkers := envInt("VERIF_WORKER", 0), envInt("VERIF_NWORKERS", 1)
	total := envInt("VERIF_RUNS", 100)
	startIdx := envInt("VERIF_START", worker)
	budget := time.Duration(envInt("VERIF_BUDGET_S", 3600)) * time.Second
	only := envInt("VERIF_ONLY", -1)
	detEvery := envInt("VERIF_DET_EVERY", 40)
	startWatchdog(outDir, worker)

	sum := &workerSummary{Property: id, Worker: worker, Faults: map[string]int{}, Probes: map[string]int{}, RaceBuild: raceBuild,
		Level: p.Level, Rule: p.Rule, Components: p.Components, Assumptions: p.Assumptions}
	hashes := map[uint64]bool{}
	sigs := map[string]*violationRec{}
	wallStart := time.Now()
	progress := filepath.Join(outDir, fmt.Sprintf("progress-%d", worker))
	writeSummary := func() {
		sum.Hashes = sum.Hashes[:0]
		for h := range hashes {
			sum.Hashes = append(sum.Hashes, strconv.FormatUint(h, 16))
		}
		sort.Strings(sum.Hashes)
		sum.Violations = sum.Violations[:0]
		var keys []string
		for k := range sigs {
			keys = append(keys, k)
		}
		sort.Strings(keys)
		for _, k := range keys {
			sum.Violations = append(sum.Violations, *sigs[k])
		}
		sum.WallSeconds = time.Since(wallStart).Seconds()
		b, _ := json.Marshal(sum)
		tmp := filepath.Join(outDir, fmt.Sprintf("summary-%d.json.tmp", worker))
		os.WriteFile(tmp, b, 0o644)
		os.Rename(tmp, filepath.Join(outDir, fmt.Sprintf("summary-%d.json", worker)))
	}
	idx := startIdx
	for ; idx < total; idx += nworkers {
		if only >= 0 {
			idx = only
		}
		if time.Since(wallStart) > budget {
			break
		}
		os.WriteFile(progress, []byte(strconv.Itoa(idx)), 0o644)
		seed := simrt.Hash64(base, propHash(id), uint64(idx))
		plan, sched := simrt.NewTape(seed), simrt.NewTape(seed^0xabcdef12345)
		if p.Forced != nil {
			if f := p.Forced(tier, idx); f != nil {
				plan.Prefill(f)
			}
		}
		raceBefore := raceMark(outDir, worker)
		o := execute(t, p, tier, plan, sched)
		sum.Runs++
		sum.NextIndex = idx + nworkers
		if o.infra != "" {
			sum.Infra = append(sum.Infra, fmt.Sprintf("run %d: %s", idx, o.infra))
			if len(sum.Infra) > 5 {
				break
			}
			if only >= 0 {
				break
			}
			continue
		}
		if hl := os.Getenv("VERIF_HASHLOG"); hl != "" {
			// determinism self-test: one line per run, compared across processes by the supervisor
			if f, err := os.OpenFile(hl, os.O_APPEND|os.O_CREATE|os.O_WRONLY, 0o644); err == nil {
				var sg []string
				for _, v := range o.viol {
					sg = append(sg, v.Sig())
				}
				fmt.Fprintf(f, "%d %x %d %d %q\n", idx, o.hash, o.steps, o.r.Res.Switches, sg)
				f.Close()
			}
		}
		sum.Steps += int64(o.steps)
		sum.Switches += int64(o.r.Res.Switches)
		sum.SimSeconds += o.r.SimTime.Seconds()
		if o.r.Net != nil {
			addStats(sum.Faults, o.r.Net.Stats)
		}
		for k, v := range o.r.Probes {
			sum.Probes[k] += v
		}
		if o.r.Res.StepLimit {
			sum.StepLimited++
		}
		if o.nontrivial {
			hashes[o.hash] = true
		}
		if len(sum.Samples) < 3 && o.nontrivial && len(o.r.trace) > 0 {
			sum.Samples = append(sum.Samples, sample{RunIndex: idx, Steps: o.steps, Hash: strconv.FormatUint(o.hash, 16), Trace: clip(o.r.trace, 60)})
		}
		viol := o.viol
		if raceBuild {
			for _, v := range raceViolations(outDir, worker, raceBefore, sum) {
				if raceInScope(p, v) {
					viol = append(viol, v)
				} else {
					sum.Probes["race_report_out_of_scope:"+v.Class]++
				}
			}
		}
		// determinism re-check: same tapes, same process, must give the same event log
		if detEvery > 0 && (sum.Runs%detEvery == 1) && !raceBuild {
			o2 := execute(t, p, tier, simrt.ReplayTape(plan.Used()), simrt.ReplayTape(sched.Used()))
			sum.DetChecks++
			if o2.hash != o.hash || o2.steps != o.steps || len(o2.viol) != len(o.viol) {
				sum.DetMismatch++
				sum.Infra = append(sum.Infra, fmt.Sprintf("run %d: NONDETERMINISM hash %x/%d vs %x/%d", idx, o.hash, o.steps, o2.hash, o2.steps))
			}
		}
		for _, v := range viol {
			sig := v.Sig()
			if rec, ok := sigs[sig]; ok {
				rec.Count++
				continue
			}
			rec := &violationRec{Signature: sig, Oracle: v.Oracle, Class: v.Class, Detail: v.Detail, RunIndex: idx, Count: 1}
			sigs[sig] = rec
			pl, sc := plan.Used(), sched.Used()
			rf := ReplayFile{Property: id, Tier: tier, BaseSeed: base, RunIndex: idx, Signature: sig, Oracle: v.Oracle, Class: v.Class, Detail: v.Detail, Race: raceBuild}
			if len(sigs) <= 4 && v.Oracle != "race" && os.Getenv("VERIF_NOSHRINK") == "" && time.Since(wallStart) < budget {
				spl, ssc, n := shrink(t, p, tier, pl, sc, sig, 400, 40*time.Second)
				// confirm the minimised pair and take its trace
				o3 := execute(t, p, tier, simrt.ReplayTape(spl), simrt.ReplayTape(ssc))
				if v3, ok := hasSig(o3.viol, sig); ok {
					pl, sc = spl, ssc
					rf.Shrunk, rf.ShrinkRun = true, n
					rf.Detail = v3.Detail
					rf.Trace = clip(o3.r.trace, 200)
					rf.Hash = strconv.FormatUint(o3.hash, 16)
					rf.Steps = o3.steps
				}
			}
			if rf.Trace == nil {
				rf.Trace = clip(o.r.trace, 200)
				rf.Hash = strconv.FormatUint(o.hash, 16)
				rf.Steps = o.steps
			}
			rf.Plan, rf.Sched = pl, sc
			name := filepath.Join(outDir, fmt.Sprintf("replay-%s-%d-%d.json", id, base, idx))
			b, _ := json.MarshalIndent(rf, "", " ")
			os.WriteFile(name, b, 0o644)
			rec.Replay = name
		}
		if sum.Runs%200 == 0 {
			writeSummary()
		}
		if only >= 0 {
			break
		}
	}
	sum.Finished = true
	writeSummary()
	_ = runtime.NumGoroutine
}

func clip(s []string, n int) []string {
	if len(s) > n {
		s = append(append([]string{}, s[:n]...), fmt.Sprintf("... (%d more lines)", len(s)-n))
	}
	for i, l := range s {
		if len(l) > 3000 {
			s[i] = l[:3000] + "…"
		}
	}
	return s
}

func raceInScope(p *Prop, v Violation) bool {
	if len(p.RaceScope) == 0 {
		return true
	}
	for _, side := range strings.Split(v.Class, " <-> ") {
		for _, pre := range p.RaceScope {
			if strings.HasPrefix(side, pre) {
				return true
			}
		}
	}
	return false
}

// replayMain re-executes a replay file and reports whether the same signature recurs.
func replayMain(t *testing.T, p *Prop, path string) {
	b, err := os.ReadFile(path)
	if err != nil {
		fmt.Printf("INFRA cannot read replay file: %v\n", err)
		os.Exit(2)
	}
	var rf ReplayFile
	if err := json.Unmarshal(b, &rf); err != nil {
		fmt.Printf("INFRA bad replay file: %v\n", err)
		os.Exit(2)
	}
	tier := rf.Tier
	if tier == "" {
		tier = "quick"
	}
	outDir := os.Getenv("VERIF_OUT")
	var plan, sched *simrt.Tape
	if rf.Plan == nil && rf.Sched == nil && rf.Signature != "" && strings.HasPrefix(rf.Oracle, "process-") {
		seed := simrt.Hash64(rf.BaseSeed, propHash(rf.Property), uint64(rf.RunIndex))
		plan, sched = simrt.NewTape(seed), simrt.NewTape(seed^0xabcdef12345)
		if p.Forced != nil {
			if f := p.Forced(tier, rf.RunIndex); f != nil {
				plan.Prefill(f)
			}
		}
	} else {
		plan, sched = simrt.ReplayTape(rf.Plan), simrt.ReplayTape(rf.Sched)
	}
	startWatchdog(outDir, 0)
	sum := &workerSummary{Faults: map[string]int{}, Probes: map[string]int{}}
	mark := raceMark(outDir, 0)
	o := execute(t, p, tier, plan, sched)
	viol := o.viol
	if raceBuild {
		viol = append(viol, raceViolations(outDir, 0, mark, sum)...)
	}
	if o.infra != "" {
		fmt.Printf("INFRA %s\n", o.infra)
		os.Exit(2)
	}
	for _, l := range o.r.trace {
		fmt.Println("  | " + l)
	}
	if v, ok := hasSig(viol, rf.Signature); ok {
		fmt.Printf("REPRODUCED signature=%q hash=%x steps=%d\n%s\n", rf.Signature, o.hash, o.steps, v.Detail)
		os.Exit(1)
	}
	for _, v := range viol {
		fmt.Printf("OTHER-VIOLATION signature=%q\n%s\n", v.Sig(), v.Detail)
	}
	fmt.Printf("NOT-REPRODUCED hash=%x steps=%d (recorded %s/%d)\n", o.hash, o.steps, rf.Hash, rf.Steps)
	os.Exit(0)
}

// startWatchdog kills the process when the scheduler makes no step for 30 s of real time
// (a goroutine spinning without reaching a scheduling point, or a non-durable block).
func startWatchdog(outDir string, worker int) {
	go func() {
		last := simrt.StepCounter.Load()
		stale := 0
		for {
			time.Sleep(time.Second)
			cur := simrt.StepCounter.Load()
			if cur != last {
				last, stale = cur, 0
				continue
			}
			stale++
			if stale >= envInt("VERIF_WATCHDOG_S", 30) {
				buf := make([]byte, 1<<20)
				buf = buf[:runtime.Stack(buf, true)]
				os.WriteFile(filepath.Join(outDir, fmt.Sprintf("watchdog-%d.txt", worker)), buf, 0o644)
				fmt.Printf("WATCHDOG no scheduler step for %d s\n", stale)
				os.Exit(3)
			}
		}
	}()
}
