package harness

import (
	"crypto/tls"
	"fmt"
	"net"
	"strings"
	"time"

	"github.com/emersion/go-imap/v2"
	"github.com/emersion/go-imap/v2/imapserver"
	"verif.local/simrt"
	"verif.local/simrt/simnet"
)

// C05 — server state machine: the backend is reached only in permitted states.
// Reference model: DESIGN.md Appendix A (RFC 9051 section 3 and 6, RFC 8437, RFC 2177).

func init() {
	register(&Prop{
		ID:    "C05",
		Level: "exploration",
		Rule: "case = (configuration {implicit TLS via real crypto/tls, plaintext} x {InsecureAuth} x {greeting OK, PREAUTH, NewSession error} x capability set, sequence of <=30 syntactically valid commands over the full alphabet in UID and non-UID forms issued from whatever state the connection is in (IDLE ended by DONE or by another line), seeded success/failure of every backend method, pipelined bursts), segmentation and schedule. " +
			"Non-trivial: at least one command got a tagged reply. Distinct: distinct event-log hashes.",
		Components:   "real: imapserver.Conn/Server, internal/imapwire (woven), crypto/tls (un-woven) in the TLS configurations; stub: Session with seeded outcomes (it also watches Session.Idle against later session calls), scripted raw peer, executable RFC 9051 state machine as the oracle, network, clock, scheduler",
		Assumptions:  []string{"a backend call is attributed to the command whose tagged reply is the first one written after the call (valid because a connection handles one command at a time)", "not judged: response texts and codes, whether ENABLE is refused in the selected state, the order of Poll relative to the tagged line"},
		QuickRuns:    8000,
		ThoroughRuns: 250000,
		Run:          runC05,
	})
}

type mstate int

const (
	msNotAuth mstate = iota
	msAuth
	msSelected
	msLogout
)

var msNames = [...]string{"not-authenticated", "authenticated", "selected", "logout"}

// c05cmd is one entry of the command alphabet.
type c05cmd struct {
	name    string   // wire name
	line    string   // full syntactically valid text after the tag
	states  []mstate // states in which RFC 9051 permits it
	methods []string // backend methods it may reach
	lit     bool     // ends with a synchronising literal {3} abc
	cont    []string
	authCmd bool
}

var (
	anyState    = []mstate{msNotAuth, msAuth, msSelected}
	authStates  = []mstate{msAuth, msSelected}
	selState    = []mstate{msSelected}
	notAuthOnly = []mstate{msNotAuth}
)

var c05alphabet = []c05cmd{
	{name: "CAPABILITY", line: "CAPABILITY", states: anyState},
	{name: "NOOP", line: "NOOP", states: anyState},
	{name: "CHECK", line: "CHECK", states: anyState},
	{name: "LOGOUT", line: "LOGOUT", states: anyState},
	{name: "STARTTLS", line: "STARTTLS", states: nil}, // only generated where it must be refused
	{name: "LOGIN", line: `LOGIN "user" "pass"`, states: notAuthOnly, methods: []string{"Login"}, authCmd: true},
	{name: "AUTHENTICATE", line: "AUTHENTICATE PLAIN AHVzZXIAcGFzcw==", states: notAuthOnly, methods: []string{"Authenticate", "SASLPlain"}, authCmd: true},
	{name: "AUTHENTICATE", line: "AUTHENTICATE LOGIN", states: notAuthOnly, methods: []string{"Authenticate", "SASLLogin"}, cont: []string{"dXNlcg==", "cGFzcw=="}, authCmd: true},
	{name: "ENABLE", line: "ENABLE IMAP4rev2", states: authStates},
	{name: "NAMESPACE", line: "NAMESPACE", states: authStates, methods: []string{"Namespace"}},
	{name: "CREATE", line: `CREATE "box"`, states: authStates, methods: []string{"Create"}},
	{name: "DELETE", line: `DELETE "box"`, states: authStates, methods: []string{"Delete"}},
	{name: "RENAME", line: `RENAME "box" "box2"`, states: authStates, methods: []string{"Rename"}},
	{name: "SUBSCRIBE", line: `SUBSCRIBE "box"`, states: authStates, methods: []string{"Subscribe"}},
	{name: "UNSUBSCRIBE", line: `UNSUBSCRIBE "box"`, states: authStates, methods: []string{"Unsubscribe"}},
	{name: "LIST", line: `LIST "" "*"`, states: authStates, methods: []string{"List"}},
	{name: "LSUB", line: `LSUB "" "*"`, states: authStates, methods: []string{"List"}},
	{name: "STATUS", line: `STATUS "box" (MESSAGES)`, states: authStates, methods: []string{"Status"}},
	{name: "APPEND", line: `APPEND "box" `, states: authStates, methods: []string{"Append"}, lit: true},
	{name: "IDLE", line: "IDLE", states: authStates, methods: []string{"Idle"}, cont: []string{"DONE"}},
	{name: "UNAUTHENTICATE", line: "UNAUTHENTICATE", states: authStates, methods: []string{"Unauthenticate", "Unselect"}},
	{name: "SELECT", line: `SELECT "box"`, states: authStates, methods: []string{"Select", "Unselect"}},
	{name: "EXAMINE", line: `EXAMINE "box"`, states: authStates, methods: []string{"Select", "Unselect"}},
	{name: "CLOSE", line: "CLOSE", states: selState, methods: []string{"Expunge", "Unselect"}},
	{name: "UNSELECT", line: "UNSELECT", states: selState, methods: []string{"Unselect"}},
	{name: "EXPUNGE", line: "EXPUNGE", states: selState, methods: []string{"Expunge"}},
	{name: "UID EXPUNGE", line: "UID EXPUNGE 1:3", states: selState, methods: []string{"Expunge"}},
	{name: "SEARCH", line: "SEARCH ALL", states: selState, methods: []string{"Search"}},
	{name: "UID SEARCH", line: "UID SEARCH UNSEEN", states: selState, methods: []string{"Search"}},
	{name: "FETCH", line: "FETCH 1 (FLAGS)", states: selState, methods: []string{"Fetch"}},
	{name: "UID FETCH", line: "UID FETCH 1 (FLAGS UID)", states: selState, methods: []string{"Fetch"}},
	{name: "STORE", line: `STORE 1 +FLAGS (\Seen)`, states: selState, methods: []string{"Store"}},
	{name: "UID STORE", line: `UID STORE 1 FLAGS.SILENT (\Seen)`, states: selState, methods: []string{"Store"}},
	{name: "COPY", line: `COPY 1 "box"`, states: selState, methods: []string{"Copy"}},
	{name: "UID COPY", line: `UID COPY 1 "box"`, states: selState, methods: []string{"Copy"}},
	{name: "MOVE", line: `MOVE 1 "box"`, states: selState, methods: []string{"Move"}},
	{name: "UID MOVE", line: `UID MOVE 1 "box"`, states: selState, methods: []string{"Move"}},
	// IDLE ended by something else than DONE: the command fails, and the backend is told to stop all the same
	{name: "IDLE", line: "IDLE", states: authStates, methods: []string{"Idle"}, cont: []string{"done with it"}},
	{name: "FROB", line: "FROB x", states: nil},
}

var methodStates = map[string][]mstate{
	"Login": notAuthOnly, "Authenticate": notAuthOnly, "SASLPlain": notAuthOnly, "SASLLogin": notAuthOnly,
	"Select": authStates, "Create": authStates, "Delete": authStates, "Rename": authStates, "Subscribe": authStates, "Unsubscribe": authStates,
	"List": authStates, "Status": authStates, "Append": authStates, "Idle": authStates, "Namespace": authStates, "Unauthenticate": authStates, "Poll": authStates,
	"Unselect": selState, "Expunge": selState, "Search": selState, "Fetch": selState, "Store": selState, "Copy": selState, "Move": selState,
}

func inStates(s mstate, l []mstate) bool {
	for _, x := range l {
		if x == s {
			return true
		}
	}
	return false
}

func hasStr(l []string, s string) bool {
	for _, x := range l {
		if x == s {
			return true
		}
	}
	return false
}

func runC05(r *R) {
	t := r.P
	useTLS := t.Choose(4) == 3
	insecure := t.Choose(2) == 1
	greet := t.Choose(8) // 0..5 OK, 6 PREAUTH, 7 NewSession error
	capsVariant := t.Choose(4)
	failPermille := []int{0, 150, 400}[t.Choose(3)]
	netMode := t.Choose(3)
	n := 1 + t.Choose(30)
	var cmds []rawCmd
	var defs []*c05cmd
	for i := 0; i < n; i++ {
		var d *c05cmd
		// bias towards progress so that deep states are visited
		switch t.Choose(7) {
		case 6:
			// an unknown command with the next command pipelined right behind it
			d = &c05alphabet[len(c05alphabet)-1]
			cmds = append(cmds, rawCmd{Tag: fmt.Sprintf("c%d", i+1), Name: d.name, Parts: cat(d.line), NoWait: true})
			defs = append(defs, d)
			i++
			d = &c05alphabet[5+t.Choose(3)]
		case 0:
			d = &c05alphabet[5+t.Choose(3)] // LOGIN / AUTHENTICATE
		case 1:
			d = &c05alphabet[21+t.Choose(2)] // SELECT / EXAMINE
		default:
			d = &c05alphabet[t.Choose(len(c05alphabet))]
		}
		if d.name == "STARTTLS" && !useTLS && false {
			continue
		}
		c := rawCmd{Tag: fmt.Sprintf("c%d", i+1), Name: d.name, Parts: cat(d.line), Cont: d.cont}
		if d.lit {
			c.Parts = cat(d.line, rawPart{IsLit: true, Lit: []byte("abc"), Sync: t.Choose(2) == 0})
		}
		if d.cont == nil && !d.lit && t.Choose(5) == 0 {
			c.NoWait = true // pipelined burst
		}
		cmds = append(cmds, c)
		defs = append(defs, d)
	}
	cfg := r.SchedConfig()
	b := newStubBackend()
	failTape := simrt.NewTape(uint64(t.Choose(1<<20)) + 77)
	b.failEach = func(method string) bool { return failPermille > 0 && failTape.Choose(1000) < failPermille }
	b.failUnselect = !useTLS // (under TLS the backend calls cannot be attributed to commands by step)
	switch greet {
	case 6:
		b.preAuth = true
	case 7:
		if t.Choose(2) == 0 {
			b.newErr = &imap.Error{Type: imap.StatusResponseTypeBye, Text: "go away"}
		} else {
			b.newErr = fmt.Errorf("backend down")
		}
	}
	r.Tracef("config tls=%v insecureAuth=%v greeting=%d caps=%d fail=%d/1000", useTLS, insecure, greet, capsVariant, failPermille)
	var peer *rawPeer
	var env *stubEnv
	var srvPipe int
	var cliConn *simnet.Conn
	r.Sim(cfg, func() {
		r.Net.KeepLog = true
		caps := serverCaps(capsVariant)
		srvTLS, cliTLS := testTLS()
		env = newStubEnv(r, b, &imapserver.Options{Caps: caps, InsecureAuth: insecure})
		cc, sc := r.Net.Pair("peer", "srv-peer")
		cliConn = cc
		srvPipe = sc.OutPipeID()
		switch netMode {
		case 1:
			cc.SetSegMode(2)
		case 2:
			sc.SetShortReads(true)
			cc.SetShortReads(true)
		}
		var pconn net.Conn = cc
		if useTLS {
			env.ln.Push(tls.Server(sc, srvTLS))
			pconn = tls.Client(cc, cliTLS)
		} else {
			env.ln.Push(sc)
		}
		peer = newRawPeer(r, "peer", pconn)
		done := make(chan struct{})
		simrt.GoTask("peer", func() {
			defer close(done)
			if peer.waitGreeting() {
				peer.run(cmds)
			}
			peer.timeout = 2 * time.Second
			peer.drain()
			pconn.Close()
		})
		waitOrTimeout(done, 24*time.Hour)
		env.srv.Close()
	})
	if r.Res.Infra != "" || peer == nil {
		return
	}
	r.CheckLiveness(true)
	judgeIdleLeaks(r, b, "run")
	for _, p := range env.log.panics() {
		r.Violate("server-panic", panicLogClass(p), "%s", clipStr(p, 2000))
	}
	c05Judge(r, peer, b, defs, useTLS, insecure, greet, srvPipe, cliConn)
	if len(r.viol) > 0 {
		for _, c := range b.calls {
			r.Tracef("backend step=%d %s err=%v", c.Step, c, c.Err)
		}
		r.Tracef("server output: %q", clipStr(string(peer.buf), 3000))
		for _, l := range env.log.all() {
			r.Tracef("server log: %s", clipStr(l, 300))
		}
	}
}

func capsOf(rp *Resp) (map[string]bool, bool) {
	caps := map[string]bool{}
	if rp.Code == "CAPABILITY" {
		for _, c := range strings.Fields(rp.CodeArg) {
			caps[strings.ToUpper(c)] = true
		}
		return caps, true
	}
	if rp.Name == "CAPABILITY" {
		for _, t := range rp.Toks {
			caps[strings.ToUpper(t.S)] = true
		}
		return caps, true
	}
	return nil, false
}

func c05Judge(r *R, peer *rawPeer, b *stubBackend, defs []*c05cmd, useTLS, insecure bool, greet int, srvPipe int, cli *simnet.Conn) {
	if peer.greeting == nil {
		if greet != 7 {
			r.Violate("no-greeting", "", "the server sent no greeting")
		}
		return
	}
	st := msNotAuth
	switch {
	case greet == 7:
		if peer.greeting.Name != "BYE" && peer.greeting.Name != "NO" {
			r.Violate("greeting", "NewSession error", "NewSession failed but the greeting was %q", string(peer.greeting.Line.Raw))
		}
		st = msLogout
	case greet == 6:
		if peer.greeting.Name != "PREAUTH" {
			r.Violate("greeting", "PREAUTH expected", "pre-authenticated session but the greeting was %q", string(peer.greeting.Line.Raw))
		}
		st = msAuth
	default:
		if peer.greeting.Name != "OK" {
			r.Violate("greeting", "OK expected", "greeting was %q", string(peer.greeting.Line.Raw))
		}
	}
	canAuth := useTLS || insecure
	checkCaps := func(rp *Resp, state mstate, where string) {
		caps, ok := capsOf(rp)
		if !ok {
			return
		}
		hasAuth := false
		for c := range caps {
			if strings.HasPrefix(c, "AUTH=") {
				hasAuth = true
			}
		}
		if state == msNotAuth {
			if canAuth && (caps["LOGINDISABLED"] || !hasAuth) {
				r.Violate("capability-advertisement", "auth allowed but not offered", "%s: authentication is permitted (tls=%v insecureAuth=%v) but capabilities are %v", where, useTLS, insecure, keys(caps))
			}
			if !canAuth && (!caps["LOGINDISABLED"] || hasAuth) {
				r.Violate("capability-advertisement", "auth offered on plaintext", "%s: plaintext connection without InsecureAuth must advertise LOGINDISABLED and no AUTH=, got %v", where, keys(caps))
			}
		} else if caps["LOGINDISABLED"] || hasAuth {
			r.Violate("capability-advertisement", "auth caps after authentication", "%s: %v", where, keys(caps))
		}
		if caps["STARTTLS"] {
			r.Violate("capability-advertisement", "STARTTLS offered", "%s: STARTTLS advertised although TLS is not configured or already active: %v", where, keys(caps))
		}
	}
	if greet != 7 {
		checkCaps(peer.greeting, st, "greeting")
	}
	// time (scheduler step) at which each byte offset of the server's plaintext stream was written.
	// Under TLS the plaintext offsets are unknown, so attribution falls back to reply order only.
	type wr struct {
		off  int64
		step int
	}
	var writes []wr
	if !useTLS {
		for _, e := range r.Net.Log {
			if e.Pipe == srvPipe && e.Kind == 'w' {
				writes = append(writes, wr{e.Off, e.Step})
			}
		}
	}
	stepOf := func(off int) int {
		for _, w := range writes {
			if w.off >= int64(off) {
				return w.step
			}
		}
		return 1 << 30
	}
	calls := b.calls
	ci := 0
	closedSeen := false
	logoutStep, prevReplyEnd := 0, 0
	prevReplyIdx := -1
	undetermined := false
	for i, o := range peer.outcomes {
		d := defs[i]
		if !o.Sent {
			continue
		}
		if st == msLogout || closedSeen {
			if logoutStep == 0 && prevReplyEnd > 0 {
				logoutStep = stepOf(prevReplyEnd)
			}
			if o.Reply != nil {
				r.Violate("command-after-logout", d.name, "command %s %s was answered (%s) although the connection was in the logout state", o.Cmd.Tag, d.name, o.describe())
			}
			continue
		}
		if o.Reply == nil {
			if o.TimedOut {
				r.Violate("no-tagged-reply", d.name, "command %s %s got no tagged reply although the connection stayed open", o.Cmd.Tag, d.name)
			}
			if d.name == "FROB" && st == msNotAuth {
				closedSeen = true // BYE + close is the required reaction
			} else if o.Closed {
				closedSeen = true
				if d.name != "LOGOUT" {
					r.Violate("unexpected-close", d.name, "the server closed the connection instead of answering %s %s in state %s", o.Cmd.Tag, d.name, msNames[st])
				}
			}
			continue
		}
		r.Nontrivial = true
		prevReplyEnd = o.Reply.Line.End
		// backend calls of this command: those made before its tagged reply was written
		var mine []stubCall
		if !useTLS {
			limit := stepOf(o.Reply.Line.End)
			for ci < len(calls) && calls[ci].Step <= limit && calls[ci].Method != "Close" {
				mine = append(mine, calls[ci])
				ci++
			}
		}
		permitted := inStates(st, d.states)
		if d.authCmd && !canAuth {
			permitted = false
		}
		// the backend refused to unselect in the middle of a SELECT / EXAMINE / UNAUTHENTICATE: which state that
		// leaves is not prescribed anywhere; nothing after it is judged
		if d.name == "SELECT" || d.name == "EXAMINE" || d.name == "UNAUTHENTICATE" {
			refusedUnselect := false
			for _, c := range mine {
				if c.Method == "Unselect" && c.Err {
					refusedUnselect = true
				}
			}
			if refusedUnselect {
				r.Probe("implicit_unselect_refused")
				undetermined = true
				break
			}
		}
		res := o.Reply.Name
		// the server's own idea of the state, as far as it tells: "only valid in the X state" for a command the
		// model permits means the two have diverged
		if permitted && res == "BAD" && strings.Contains(o.Reply.Text, "only valid in the") && !useTLS {
			r.Violate("state-divergence", d.name+" in "+msNames[st], "command %s %s is permitted in state %s, which the transcript so far implies, but the server answered %q", o.Cmd.Tag, d.name, msNames[st], clipStr(o.Reply.Text, 120))
		}
		post := st
		// a state-changing command must not report success when the backend refused it
		if res == "OK" {
			switch d.name {
			case "LOGIN", "AUTHENTICATE", "SELECT", "EXAMINE", "UNAUTHENTICATE":
				for _, c := range mine {
					if c.Err && c.Method != "Poll" && c.Method != "Unselect" {
						r.Violate("success-despite-backend-refusal", d.name+"->"+c.Method, "command %s %s was answered OK although the backend refused it: %s failed (the connection would change state without the backend's consent)", o.Cmd.Tag, d.name, c)
					}
				}
			}
		}
		if permitted && res == "OK" {
			switch d.name {
			case "LOGIN", "AUTHENTICATE":
				post = msAuth
			case "SELECT", "EXAMINE":
				post = msSelected
			case "CLOSE", "UNSELECT":
				post = msAuth
			case "UNAUTHENTICATE":
				post = msNotAuth
			case "LOGOUT":
				post = msLogout
			}
		} else if permitted && (d.name == "SELECT" || d.name == "EXAMINE") {
			post = msAuth // RFC 9051 6.3.2: a failed SELECT leaves no mailbox selected
		}
		if !permitted {
			if res == "OK" {
				r.Violate("forbidden-command-accepted", d.name+" in "+msNames[st], "command %s %s is not permitted in state %s (tls=%v insecureAuth=%v) but was answered OK", o.Cmd.Tag, d.name, msNames[st], useTLS, insecure)
			}
			for _, c := range mine {
				if c.Method != "Poll" {
					r.Violate("backend-reached-in-wrong-state", c.Method+" in "+msNames[st], "command %s %s is not permitted in state %s (tls=%v insecureAuth=%v) but reached the backend: %s", o.Cmd.Tag, d.name, msNames[st], useTLS, insecure, c)
				}
			}
		}
		for _, c := range mine {
			ms, known := methodStates[c.Method]
			if known && !inStates(st, ms) && !inStates(post, ms) {
				r.Violate("backend-reached-in-wrong-state", c.Method+" in "+msNames[st], "backend method %s was invoked while answering %s %s in state %s", c.Method, o.Cmd.Tag, d.name, msNames[st])
			}
			if c.Method != "Poll" && permitted && !hasStr(d.methods, c.Method) {
				r.Violate("unexpected-backend-method", d.name+"->"+c.Method, "command %s %s invoked backend method %s", o.Cmd.Tag, d.name, c.Method)
			}
			if (c.Method == "Login" || strings.HasPrefix(c.Method, "SASL") || c.Method == "Authenticate") && !canAuth {
				r.Violate("credentials-over-plaintext", c.Method, "credentials reached the backend over plaintext without InsecureAuth: %s", c)
			}
		}
		if d.name == "LOGOUT" {
			// BYE must precede the tagged OK
			sawBye := false
			for k := o.FromIdx; k < o.ReplyIdx && k < len(peer.resps); k++ {
				if peer.resps[k].Name == "BYE" {
					sawBye = true
				}
			}
			if !sawBye {
				r.Violate("logout-without-bye", "", "LOGOUT %s was answered without an untagged BYE", o.Cmd.Tag)
			}
		}
		if d.name == "FROB" {
			if res != "BAD" && res != "NO" {
				r.Violate("forbidden-command-accepted", "unknown command", "unknown command answered %s", res)
			}
			if st == msNotAuth {
				post = msLogout // must be followed by BYE and close
			}
		}
		// capability data inside replies must match the state after the command
		if d.name == "CAPABILITY" {
			// its untagged data sits between the previous command's tagged reply and its own (with pipelining
			// the responses not yet parsed when it was sent include replies to earlier commands: not its data)
			from := o.FromIdx
			if prevReplyIdx+1 > from {
				from = prevReplyIdx + 1
			}
			for k := from; k < o.ReplyIdx && k < len(peer.resps); k++ {
				if peer.resps[k].Tag == "*" {
					checkCaps(&peer.resps[k], st, "CAPABILITY in state "+msNames[st])
				}
			}
		}
		if (d.name == "LOGIN" || d.name == "AUTHENTICATE") && res == "OK" {
			checkCaps(o.Reply, post, d.name+" reply")
		}
		st = post
		prevReplyIdx = o.ReplyIdx
	}
	// once the connection is in the logout state (LOGOUT answered, or an unknown command before
	// authentication answered) nothing but Close may reach the backend, whatever was pipelined
	if undetermined {
		return
	}
	if (st == msLogout || closedSeen) && !useTLS && greet != 7 {
		if logoutStep == 0 && prevReplyEnd > 0 {
			logoutStep = stepOf(prevReplyEnd)
		}
		for _, c := range calls {
			if logoutStep > 0 && c.Step > logoutStep && c.Method != "Close" {
				r.Violate("backend-reached-after-logout", c.Method, "backend call %s happened (step %d) after the reply that put the connection in the logout state was written (step %d)", c, c.Step, logoutStep)
			}
		}
	}
	if st == msLogout && !peer.eof {
		r.Violate("no-close-after-logout", "", "the server did not close the connection after entering the logout state")
	}
	// calls after the last attributed command (other than Close) would have been attributed above;
	// globally: Login/SASL never without permission, whatever the attribution
	for _, c := range calls {
		if (c.Method == "Login" || strings.HasPrefix(c.Method, "SASL")) && !canAuth {
			r.Violate("credentials-over-plaintext", c.Method, "credentials reached the backend over plaintext without InsecureAuth: %s", c)
		}
	}
	_ = cli
}

func keys(m map[string]bool) []string {
	var k []string
	for x := range m {
		k = append(k, x)
	}
	sortStrings(k)
	return k
}
