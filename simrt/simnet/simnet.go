// Package simnet is the simulated transport: net.Conn / net.Listener over the simrt controller's
// event queue, with seeded segmentation, short reads, back-pressure, deadlines and faults.
//
// All methods are called from workers holding the scheduler's baton (or from the controller), so
// no locking is needed. Bytes are moved with plain index loops and every function is //go:norace:
// the only race annotations are the ones real sockets have (see DESIGN.md 2.3).
package simnet

import (
	"io"
	"net"
	"os"
	"syscall"
	"time"

	"verif.local/simrt"
)

// Fault kinds applied to one directed pipe once a given number of bytes has been delivered.
const (
	CutNone  = iota
	CutFIN   // reader sees EOF after k bytes
	CutRST   // reader sees ECONNRESET after k bytes; the reader's own writes then fail with EPIPE
	CutStall // nothing is delivered after k bytes
)

var CutNames = [...]string{"none", "fin", "rst", "stall"}

// Event is one entry of the network log, stamped with the global scheduler step.
type Event struct {
	Step int
	Pipe int
	Kind byte // 'w' written, 'd' delivered, 'r' read, 'f' fault fired, 'c' close
	N    int
	Off  int64 // stream offset after the event
}

type pipe struct {
	id        int
	name      string
	inflight  []byte
	inbox     []byte
	stream    []byte // everything ever written (for wire oracles)
	capacity  int    // limit on len(inflight)+len(inbox); 0 = unlimited
	written   int64
	delivered int64
	consumed  int64
	wclosed   bool // writer closed: FIN follows the in-flight bytes
	eof       bool // FIN delivered
	rst       bool // RST delivered
	rclosed   bool // reader closed its end: writes fail
	stalled   bool
	cutAt     int64
	cutKind   int
	cutFired  bool
	werrAt    int64 // the Write that would pass this offset fails after a partial write (-1: none)
	werrFired bool
	rdl, wdl  time.Time
	rBlocked  bool
	wBlocked  bool
	rwake     int // wake keys (distinct addresses)
	nwake     int
	wwake     int
	segMode   int // 0 tape-chosen, 1 always everything, 2 byte at a time
	shortRead bool
}

// Net owns every pipe and implements simrt.Hook.
type Net struct {
	pipes     []*pipe
	conns     []*Conn
	Log       []Event
	KeepLog   bool
	Stats     Stats
	listeners []*Listener
}

// Stats counts faults that actually changed an I/O result (not merely configured ones).
type Stats struct {
	Segments     int // deliveries that moved only part of the in-flight bytes
	ShortReads   int
	BackPressure int // writes that had to wait for buffer space
	FIN          int
	RST          int
	Stall        int
	WriteErr     int
	ReadTimeout  int
	WriteTimeout int
	EPIPE        int
	AcceptTemp   int
	Deliveries   int
	BytesMoved   int64
}

func New() *Net { return &Net{} }

//go:norace
func (n *Net) logEv(p *pipe, kind byte, k int, off int64) {
	simrt.Mix(int(kind)<<8|p.id, k)
	if n.KeepLog {
		n.Log = append(n.Log, Event{Step: simrt.Step(), Pipe: p.id, Kind: kind, N: k, Off: off})
	}
}

//go:norace
func (p *pipe) deliverable() bool {
	if p.stalled || p.eof || p.rst {
		return false
	}
	if p.cutKind != CutNone && !p.cutFired && p.delivered >= p.cutAt {
		return true // the fault itself is the deliverable event
	}
	return len(p.inflight) > 0 || p.wclosed
}

//go:norace
func (n *Net) Candidates() int {
	c := 0
	for _, p := range n.pipes {
		if p.deliverable() {
			c++
		}
	}
	return c
}

//go:norace
func (n *Net) Fire(i int) {
	for _, p := range n.pipes {
		if !p.deliverable() {
			continue
		}
		if i > 0 {
			i--
			continue
		}
		n.deliver(p)
		return
	}
}

//go:norace
func (n *Net) deliver(p *pipe) {
	if p.cutKind != CutNone && !p.cutFired && p.delivered >= p.cutAt {
		p.cutFired = true
		switch p.cutKind {
		case CutFIN:
			p.eof = true
			n.Stats.FIN++
		case CutRST:
			p.rst = true
			n.Stats.RST++
		case CutStall:
			p.stalled = true
			n.Stats.Stall++
		}
		n.logEv(p, 'f', p.cutKind, p.delivered)
		simrt.Wake(&p.nwake)
		simrt.Wake(&p.rwake)
		simrt.Wake(&p.wwake)
		return
	}
	if len(p.inflight) > 0 {
		k := len(p.inflight)
		switch p.segMode {
		case 1:
		case 2:
			k = 1
		default:
			switch simrt.Choose(4) {
			case 1:
				k = 1
			case 2, 3:
				k = 1 + simrt.Choose(k)
			}
		}
		if p.cutKind != CutNone && !p.cutFired && p.delivered+int64(k) > p.cutAt {
			k = int(p.cutAt - p.delivered)
		}
		if k < len(p.inflight) {
			n.Stats.Segments++
		}
		p.inbox = appendBytes(p.inbox, p.inflight[:k])
		p.inflight = p.inflight[k:]
		p.delivered += int64(k)
		n.Stats.Deliveries++
		n.Stats.BytesMoved += int64(k)
		n.logEv(p, 'd', k, p.delivered)
		simrt.Wake(&p.rwake)
		simrt.Wake(&p.nwake)
		return
	}
	if p.wclosed {
		p.eof = true
		n.logEv(p, 'd', 0, p.delivered)
		simrt.Wake(&p.rwake)
	}
}

//go:norace
func (n *Net) NextDeadline() (time.Time, bool) {
	var best time.Time
	ok := false
	for _, p := range n.pipes {
		if p.rBlocked && !p.rdl.IsZero() && (!ok || p.rdl.Before(best)) {
			best, ok = p.rdl, true
		}
		if p.wBlocked && !p.wdl.IsZero() && (!ok || p.wdl.Before(best)) {
			best, ok = p.wdl, true
		}
	}
	return best, ok
}

//go:norace
func (n *Net) FireDeadlines(now time.Time) {
	for _, p := range n.pipes {
		if p.rBlocked && !p.rdl.IsZero() && !p.rdl.After(now) {
			simrt.Wake(&p.rwake)
		}
		if p.wBlocked && !p.wdl.IsZero() && !p.wdl.After(now) {
			simrt.Wake(&p.wwake)
		}
	}
}

// Conn is one endpoint of a simulated connection.
type Conn struct {
	net    *Net
	rd, wr *pipe
	closed bool
	name   string
}

// Pair creates a connection and returns its two endpoints. a reads what b writes and vice versa.
//
//go:norace
func (n *Net) Pair(aname, bname string) (*Conn, *Conn) {
	ab := &pipe{id: len(n.pipes), name: aname + ">" + bname, werrAt: -1}
	ba := &pipe{id: len(n.pipes) + 1, name: bname + ">" + aname, werrAt: -1}
	n.pipes = append(n.pipes, ab, ba)
	a, b := &Conn{net: n, rd: ba, wr: ab, name: aname}, &Conn{net: n, rd: ab, wr: ba, name: bname}
	n.conns = append(n.conns, a, b)
	return a, b
}

// PeerOf returns the other endpoint of c's connection.
func (n *Net) PeerOf(c *Conn) *Conn {
	for _, x := range n.conns {
		if x != c && x.rd == c.wr {
			return x
		}
	}
	return nil
}

// --- configuration (called by the harness before or during a run) ---

// SetSendBuffer bounds the bytes buffered towards the peer (back-pressure). 0 = unlimited.
func (c *Conn) SetSendBuffer(k int) { c.wr.capacity = k }

// SetSegMode selects how this endpoint's *outgoing* bytes are segmented: 0 tape-chosen, 1 whole, 2 byte-wise.
func (c *Conn) SetSegMode(m int) { c.wr.segMode = m }

// SetShortReads lets Read return a tape-chosen prefix of the available bytes.
func (c *Conn) SetShortReads(on bool) { c.rd.shortRead = on }

// CutIncoming arms a fault on the stream this endpoint reads, after k delivered bytes.
func (c *Conn) CutIncoming(kind int, k int64) { c.rd.cutKind, c.rd.cutAt = kind, k }

// CutOutgoing arms a fault on the stream this endpoint writes (seen by the peer), after k delivered bytes.
func (c *Conn) CutOutgoing(kind int, k int64) { c.wr.cutKind, c.wr.cutAt = kind, k }

// FailWriteAt makes the Write that would pass stream offset k fail after writing up to k.
func (c *Conn) FailWriteAt(k int64) { c.wr.werrAt = k }

// Unstall resumes delivery on the stream this endpoint reads.
//
//go:norace
func (c *Conn) Unstall() { c.rd.stalled = false }

// Written returns a copy-free view of everything this endpoint has written so far.
func (c *Conn) Written() []byte { return c.wr.stream }

// Received returns everything the peer has written towards this endpoint so far.
func (c *Conn) Received() []byte { return c.rd.stream }

// InDelivered returns how many bytes of the incoming stream have been delivered.
func (c *Conn) InDelivered() int64 { return c.rd.delivered }

// InConsumed returns how many bytes of the incoming stream have been returned by Read.
func (c *Conn) InConsumed() int64 { return c.rd.consumed }

// OutWritten returns how many bytes this endpoint has written.
func (c *Conn) OutWritten() int64 { return c.wr.written }

// ReaderParkedEmpty reports whether a Read is blocked on this endpoint with nothing buffered or in flight.
func (c *Conn) ReaderParkedEmpty() bool {
	return c.rd.rBlocked && len(c.rd.inbox) == 0 && len(c.rd.inflight) == 0
}

func (c *Conn) InPipeID() int  { return c.rd.id }
func (c *Conn) OutPipeID() int { return c.wr.id }
func (c *Conn) IsClosed() bool { return c.closed }

// PeerGone reports whether the incoming stream has ended (FIN or RST delivered).
func (c *Conn) PeerGone() bool { return c.rd.eof || c.rd.rst }

// WaitIncoming blocks the calling task until k bytes of the incoming stream have been delivered,
// or the stream has ended, or this endpoint was closed.
//
//go:norace
func (c *Conn) WaitIncoming(k int64) {
	p := c.rd
	for p.delivered < k && !p.eof && !p.rst && !c.closed && !p.stalled {
		simrt.BlockOn(&p.nwake)
	}
}

type timeoutErr struct{}

func (timeoutErr) Error() string   { return "i/o timeout" }
func (timeoutErr) Timeout() bool   { return true }
func (timeoutErr) Temporary() bool { return true }
func (timeoutErr) Unwrap() error   { return os.ErrDeadlineExceeded }

func opErr(op string, err error) error {
	return &net.OpError{Op: op, Net: "sim", Err: err}
}

//go:norace
func (c *Conn) Read(b []byte) (int, error) {
	simrt.Yield(simrt.OpRead)
	p := c.rd
	for {
		if c.closed {
			return 0, opErr("read", net.ErrClosed)
		}
		if len(p.inbox) > 0 && len(b) > 0 {
			n := len(p.inbox)
			if len(b) < n {
				n = len(b)
			}
			if p.shortRead && n > 1 {
				if k := simrt.Choose(n); k > 0 {
					n = k
					c.net.Stats.ShortReads++
				}
			}
			for i := 0; i < n; i++ {
				b[i] = p.inbox[i]
			}
			p.inbox = p.inbox[n:]
			p.consumed += int64(n)
			simrt.IOAcquire()
			simrt.RaceWriteRange(b[:n])
			c.net.logEv(p, 'r', n, p.consumed)
			simrt.Wake(&p.wwake)
			return n, nil
		}
		if len(b) == 0 {
			return 0, nil
		}
		if p.rst {
			return 0, opErr("read", syscall.ECONNRESET)
		}
		if p.eof {
			return 0, io.EOF
		}
		if !p.rdl.IsZero() && !time.Now().Before(p.rdl) {
			c.net.Stats.ReadTimeout++
			return 0, opErr("read", timeoutErr{})
		}
		p.rBlocked = true
		simrt.BlockOn(&p.rwake)
		p.rBlocked = false
	}
}

//go:norace
func (c *Conn) Write(b []byte) (int, error) {
	simrt.Yield(simrt.OpWrite)
	p := c.wr
	simrt.RaceReadRange(b)
	simrt.IORelease()
	done := 0
	waited := false
	for {
		if c.closed {
			return done, opErr("write", net.ErrClosed)
		}
		if p.rclosed || c.rd.rst {
			c.net.Stats.EPIPE++
			return done, opErr("write", syscall.EPIPE)
		}
		if done == len(b) {
			if done > 0 {
				simrt.NoteNetWrite()
			}
			return done, nil
		}
		room := len(b) - done
		if p.capacity > 0 {
			if free := p.capacity - len(p.inflight) - len(p.inbox); free < room {
				room = free
			}
		}
		if room <= 0 {
			if !p.wdl.IsZero() && !time.Now().Before(p.wdl) {
				c.net.Stats.WriteTimeout++
				return done, opErr("write", timeoutErr{})
			}
			if !waited {
				c.net.Stats.BackPressure++
				waited = true
			}
			p.wBlocked = true
			simrt.BlockOn(&p.wwake)
			p.wBlocked = false
			continue
		}
		fail := false
		if p.werrAt >= 0 && !p.werrFired && p.written+int64(room) > p.werrAt {
			room = int(p.werrAt - p.written)
			fail = true
		}
		if room > 0 {
			p.inflight = appendBytes(p.inflight, b[done:done+room])
			p.stream = appendBytes(p.stream, b[done:done+room])
			p.written += int64(room)
			done += room
			c.net.logEv(p, 'w', room, p.written)
		}
		if fail {
			p.werrFired = true
			c.net.Stats.WriteErr++
			c.net.logEv(p, 'f', 9, p.written)
			return done, opErr("write", syscall.ECONNRESET)
		}
	}
}

//go:norace
func (c *Conn) Close() error {
	if c.closed {
		return opErr("close", net.ErrClosed)
	}
	c.closed = true
	c.wr.wclosed = true
	c.rd.rclosed = true
	c.net.logEv(c.wr, 'c', 0, c.wr.written)
	simrt.Wake(&c.rd.rwake) // local blocked Read
	simrt.Wake(&c.wr.wwake) // local blocked Write
	simrt.Wake(&c.rd.wwake) // peer blocked in Write towards us
	simrt.Wake(&c.rd.nwake)
	return nil
}

type addr string

func (a addr) Network() string { return "sim" }
func (a addr) String() string  { return string(a) }

func (c *Conn) LocalAddr() net.Addr  { return addr(c.name) }
func (c *Conn) RemoteAddr() net.Addr { return addr("peer-of-" + c.name) }

//go:norace
func (c *Conn) SetDeadline(t time.Time) error {
	c.SetReadDeadline(t)
	c.SetWriteDeadline(t)
	return nil
}

//go:norace
func (c *Conn) SetReadDeadline(t time.Time) error {
	if c.closed {
		return opErr("set", net.ErrClosed)
	}
	c.rd.rdl = t
	if c.rd.rBlocked {
		simrt.Wake(&c.rd.rwake)
	}
	return nil
}

//go:norace
func (c *Conn) SetWriteDeadline(t time.Time) error {
	if c.closed {
		return opErr("set", net.ErrClosed)
	}
	c.wr.wdl = t
	if c.wr.wBlocked {
		simrt.Wake(&c.wr.wwake)
	}
	return nil
}

// Listener is a simulated net.Listener fed by the harness.
type Listener struct {
	net      *Net
	q        []net.Conn
	closed   bool
	tempErrs int // number of temporary errors to return before the next successful Accept
	wake     int
}

func (n *Net) Listen() *Listener {
	l := &Listener{net: n}
	n.listeners = append(n.listeners, l)
	return l
}

type tempErr struct{}

func (tempErr) Error() string   { return "accept: too many open files (simulated)" }
func (tempErr) Timeout() bool   { return false }
func (tempErr) Temporary() bool { return true }

//go:norace
func (l *Listener) Accept() (net.Conn, error) {
	simrt.Yield(simrt.OpAccept)
	for {
		if l.closed {
			return nil, opErr("accept", net.ErrClosed)
		}
		if l.tempErrs > 0 && len(l.q) > 0 {
			l.tempErrs--
			l.net.Stats.AcceptTemp++
			return nil, tempErr{}
		}
		if len(l.q) > 0 {
			c := l.q[0]
			l.q = l.q[1:]
			return c, nil
		}
		simrt.BlockOn(&l.wake)
	}
}

//go:norace
func (l *Listener) Close() error {
	if l.closed {
		return opErr("close", net.ErrClosed)
	}
	l.closed = true
	simrt.Wake(&l.wake)
	return nil
}

func (l *Listener) Addr() net.Addr { return addr("listener") }

// Push hands a new incoming connection to the listener.
//
//go:norace
func (l *Listener) Push(c net.Conn) { l.q = append(l.q, c); simrt.Wake(&l.wake) }

// FailAccepts makes the next k Accept calls (with a connection pending) return a temporary error.
func (l *Listener) FailAccepts(k int) { l.tempErrs = k }

// plain loops: no runtime.slicecopy/growslice, hence no race instrumentation of harness-owned memory

//go:norace
func appendBytes(dst, src []byte) []byte {
	if len(dst)+len(src) > cap(dst) {
		nd := make([]byte, len(dst), 2*(len(dst)+len(src))+64)
		for i := range dst {
			nd[i] = dst[i]
		}
		dst = nd
	}
	n := len(dst)
	dst = dst[:n+len(src)]
	for i := range src {
		dst[n+i] = src[i]
	}
	return dst
}
