package simrt

import (
	"crypto/tls"
	"net"
)

// TLSClient replaces tls.Client in woven code. crypto/tls guards its lazy handshake with a real
// sync.Mutex: two goroutines entering Read/Write before the handshake has finished (the client's
// reader and the goroutine that re-fetches capabilities right after STARTTLS) would block each
// other natively, which the simulator cannot schedule. The wrapper serialises the handshake with
// a simulated mutex instead; once it is complete, Read and Write go straight to the tls.Conn.
func TLSClient(c net.Conn, cfg *tls.Config) net.Conn {
	return &tlsWrap{Conn: tls.Client(c, cfg)}
}

type tlsWrap struct {
	*tls.Conn
	mu   Mutex
	done bool
}

func (w *tlsWrap) ensure() error {
	if w.done {
		return nil
	}
	w.mu.Lock()
	defer w.mu.Unlock()
	if w.done {
		return nil
	}
	if err := w.Conn.Handshake(); err != nil {
		return err
	}
	w.done = true
	return nil
}

func (w *tlsWrap) Read(b []byte) (int, error) {
	if err := w.ensure(); err != nil {
		return 0, err
	}
	return w.Conn.Read(b)
}

func (w *tlsWrap) Write(b []byte) (int, error) {
	if err := w.ensure(); err != nil {
		return 0, err
	}
	return w.Conn.Write(b)
}
