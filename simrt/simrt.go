// Package simrt is the deterministic scheduler of the go-imap simulator.
//
// It runs inside one testing/synctest bubble per simulated run. Every goroutine of the woven
// library and every harness task is a *worker*; the controller (the goroutine that called Run)
// releases exactly one worker at a time, at synchronisation operations only, and every choice it
// makes (who runs next, which select case fires, how many bytes are delivered) is drawn from a
// Tape, so that a run is a pure function of its tapes and the code.
//
// Rules that keep the serialised schedule visible to the race detector (see DESIGN.md 2.3):
// handoffs are wrapped in RaceDisable/RaceEnable, every function here is //go:norace, nothing
// here uses append/copy/maps on memory shared between workers and the controller.
package simrt

import (
	"fmt"
	"reflect"
	"runtime"
	"sort"
	"strings"
	"sync"
	"sync/atomic"
	"testing/synctest"
	"time"
	"unsafe"
)

const (
	evParked = iota
	evBlockNative
	evBlockSim // blocked on a simulated object (mutex, conn, waitgroup)
	evWake     // wake everybody blocked on obj
	evExit
)

// Operation kinds reported at scheduling points (part of the event-log hash).
const (
	OpStart = iota
	OpLock
	OpSend
	OpRecv
	OpClose
	OpSelect
	OpWait
	OpPost
	OpRetry
	OpRead
	OpWrite
	OpTask
	OpSleep
	OpAccept
	OpYield
	OpUnlock
)

const (
	stRunning = iota
	stParked
	stNative
	stSimBlocked
	stExited
)

type worker struct {
	id     int
	name   string
	task   bool // harness task (its non-termination is a hang); otherwise a library goroutine
	resume chan bool
	state  int
	waitOn interface{}
	op     int
	goid   uint64
	held   [8]*Mutex // simulated mutexes currently held (lock-order graph)
	nheld  int
}

type event struct {
	w    *worker
	kind int
	op   int
	obj  interface{}
}

// Hook lets the network layer add candidates and timers to the controller.
type Hook interface {
	Candidates() int // number of deliverable network events
	Fire(i int)      // perform network event i (may Wake objects)
	NextDeadline() (time.Time, bool)
	FireDeadlines(now time.Time)
}

// Config holds per-run scheduler parameters.
type Config struct {
	// SwitchPermille is the probability (in 1/1000) that the controller considers switching away
	// from the worker that ran last although it is still runnable.
	SwitchPermille int
	// MaxSteps bounds a run.
	MaxSteps int
	// IdleHops is the number of 2-hour clock hops tried when nothing is runnable and no deadline is known.
	IdleHops int
	// DemoteWrite, when k > 0, takes the CPU away from the worker that completes the k-th network write of the run
	// (counted over all connections): for the next DemoteLen scheduler steps it is not picked while anything else can
	// run ("the writer is descheduled right after its bytes reached the peer", the interleaving behind
	// answer-before-the-waiter-is-registered bugs, which a memoryless random scheduler reaches with negligible probability).
	DemoteWrite int
	DemoteLen   int
}

type LockEdge struct {
	From, To   uintptr
	Worker     int
	FromSite   string
	ToSite     string
	FromName   string
	ToName     string
	fromM, toM *Mutex
}

type Sim struct {
	events      chan event
	workers     []*worker
	nextID      int
	current     *worker
	tape        *Tape
	Steps       int
	hook        Hook
	hash        uint64
	cfg         Config
	last        *worker
	pendingWake [64]interface{}
	npending    int
	stash       []event
	dead        atomic.Bool // teardown mode: all primitives degrade to non-scheduling behaviour
	keys        [4096]keyEnt
	nkeys       int
	edges       []LockEdge
	LockWaits   int
	Switches    int
	start       time.Time
	nwrites     int
	demoted     *worker
	demoteUntil int
	stepClock   *atomic.Int64
	infra       string
	panicVal    interface{}
	panicStack  string
	taskPanics  []string
}

type keyEnt struct {
	k  interface{}
	id uint64
}

const (
	maxWorkers = 1024
	maxEdges   = 4096
)

var cur *Sim

// StepCounter is bumped at every controller step; a real-time watchdog outside the bubble reads it.
var StepCounter atomic.Int64

//go:norace
func Active() bool { return cur != nil && !cur.dead.Load() }

// NoteNetWrite is called by the simulated network when a write has been handed over completely.
//
//go:norace
func NoteNetWrite() {
	if !Active() {
		return
	}
	s := cur
	s.nwrites++
	if s.cfg.DemoteWrite > 0 && s.nwrites == s.cfg.DemoteWrite && s.current != nil {
		s.demoted = s.current
		s.demoteUntil = s.Steps + s.cfg.DemoteLen
	}
}

//go:norace
func (s *Sim) emit(e event) {
	raceDisable()
	s.events <- e
	raceEnable()
}

//go:norace
func park(w *worker, e event) {
	raceDisable()
	s := cur
	s.events <- e
	die := <-w.resume
	raceEnable()
	if die {
		runtime.Goexit()
	}
}

//go:norace
func pre(op int) *worker {
	w := cur.current
	if w == nil {
		panic("simrt: scheduling point reached from a goroutine that is not the current worker")
	}
	park(w, event{w: w, kind: evParked, op: op})
	return w
}

//go:norace
func post(w *worker) {
	if cur == nil || cur.dead.Load() {
		return
	}
	park(w, event{w: w, kind: evParked, op: OpPost})
}

// BlockOn parks the current worker until Wake(obj); the caller re-checks its condition afterwards.
//
//go:norace
func BlockOn(obj interface{}) {
	if !Active() {
		select {} // teardown: never spin, never block non-durably
	}
	w := cur.current
	park(w, event{w: w, kind: evBlockSim, obj: obj})
}

// Wake makes every worker blocked on obj runnable again. Safe from workers and from the controller.
//
//go:norace
func Wake(obj interface{}) {
	s := cur
	if s == nil || s.dead.Load() {
		return
	}
	if s.current == nil { // controller context
		if s.npending < len(s.pendingWake) {
			s.pendingWake[s.npending] = obj
			s.npending++
		} else {
			s.infra = "pendingWake overflow"
		}
		return
	}
	s.emit(event{w: s.current, kind: evWake, obj: obj})
}

// Yield is an explicit scheduling point (used by simulated conns and harness tasks).
//
//go:norace
func Yield(op int) {
	if Active() {
		pre(op)
	}
}

//go:norace
func Go(f func()) { spawn("", false, f) }

// GoTask starts a harness task: a worker whose failure to terminate is reported as a hang.
//
//go:norace
func GoTask(name string, f func()) { spawn(name, true, f) }

// GoNamed starts a named library-side worker (not a task).
//
//go:norace
func GoNamed(name string, f func()) { spawn(name, false, f) }

//go:norace
func spawn(name string, task bool, f func()) {
	s := cur
	if s == nil || s.dead.Load() {
		go f()
		return
	}
	if name == "" {
		name = callerName(3)
	}
	if len(s.workers) >= maxWorkers {
		s.infra = "too many workers"
		select {}
	}
	w := &worker{id: s.nextID, name: name, task: task, resume: make(chan bool)}
	s.nextID++
	s.workers = append(s.workers, w)
	go func() {
		w.goid = goid()
		park(w, event{w: w, kind: evParked, op: OpStart})
		defer func() {
			if s.dead.Load() {
				return
			}
			if v := recover(); v != nil {
				// A panic in a worker would kill the process; record it instead. Library goroutines
				// that panic are a finding for the properties that forbid panics.
				buf := make([]byte, 16<<10)
				buf = buf[:runtime.Stack(buf, false)]
				s.taskPanics = append(s.taskPanics, fmt.Sprintf("worker %d %q panicked: %v\n%s", w.id, w.name, v, buf))
			}
			// everything this worker did happens-before the post-run oracles (no library code runs after the run)
			raceRelease(unsafe.Pointer(&endSync))
			s.emit(event{w: w, kind: evExit})
		}()
		f()
	}()
}

func callerName(skip int) string {
	pc, _, _, ok := runtime.Caller(skip)
	if !ok {
		return "?"
	}
	fn := runtime.FuncForPC(pc)
	if fn == nil {
		return "?"
	}
	return shortFunc(fn.Name())
}

func shortFunc(n string) string {
	if i := strings.LastIndex(n, "/"); i >= 0 {
		n = n[i+1:]
	}
	return n
}

func goid() uint64 {
	var buf [64]byte
	n := runtime.Stack(buf[:], false)
	// "goroutine 123 ["
	var id uint64
	for i := len("goroutine "); i < n && buf[i] >= '0' && buf[i] <= '9'; i++ {
		id = id*10 + uint64(buf[i]-'0')
	}
	return id
}

// ---------------------------------------------------------------------------------------------
// Simulated sync primitives

type Mutex struct {
	mu    sync.Mutex
	owner *worker
	site  string
}

//go:norace
func (m *Mutex) Lock() {
	if !Active() {
		if cur != nil { // teardown
			if m.mu.TryLock() {
				return
			}
			select {}
		}
		m.mu.Lock()
		return
	}
	w := pre(OpLock)
	waited := false
	for !m.mu.TryLock() {
		if !waited {
			cur.LockWaits++
			waited = true
		}
		BlockOn(m)
		if !Active() {
			select {}
		}
	}
	m.owner = w
	cur.noteAcquire(w, m)
}

//go:norace
func (m *Mutex) Unlock() {
	s := cur
	if s != nil && !s.dead.Load() {
		if w := s.current; w != nil {
			for i := 0; i < w.nheld; i++ {
				if w.held[i] == m {
					w.held[i] = w.held[w.nheld-1]
					w.nheld--
					break
				}
			}
		}
	}
	m.owner = nil
	m.mu.Unlock()
	Wake(m)
	// Unlock is a scheduling point too: code after an Unlock is no longer protected, so another
	// goroutine must be able to run between the Unlock and whatever follows it.
	if s != nil && !s.dead.Load() && s.current != nil {
		pre(OpUnlock)
	}
}

//go:norace
func (m *Mutex) TryLock() bool {
	if m.mu.TryLock() {
		if Active() {
			m.owner = cur.current
		}
		return true
	}
	return false
}

// RWMutex is simulated as an exclusive lock (a sound under-approximation of parallelism: every
// real execution in which readers overlap is equivalent to one in which they are serialised,
// except for recursive read locking, which go-imap does not use).
type RWMutex struct{ Mutex }

func (m *RWMutex) RLock()        { m.Lock() }
func (m *RWMutex) RUnlock()      { m.Unlock() }
func (m *RWMutex) TryRLock() bool { return m.TryLock() }

//go:norace
func (s *Sim) noteAcquire(w *worker, m *Mutex) {
	site := ""
	if pc, _, _, ok := runtime.Caller(2); ok {
		if fn := runtime.FuncForPC(pc); fn != nil {
			site = shortFunc(fn.Name())
		}
	}
	m.site = site
	for i := 0; i < w.nheld; i++ {
		h := w.held[i]
		if len(s.edges) < maxEdges {
			s.edges = append(s.edges, LockEdge{From: uintptr(unsafe.Pointer(h)), To: uintptr(unsafe.Pointer(m)), Worker: w.id, FromSite: h.site, ToSite: site})
		}
	}
	if w.nheld < len(w.held) {
		w.held[w.nheld] = m
		w.nheld++
	}
}

// Map stands in for sync.Map. Every operation is atomic and one scheduling point (the simulated mutex); Range visits a
// snapshot of the entries in insertion order, so that iteration is deterministic (sync.Map.Range promises no order and
// no consistent snapshot either). The zero value is ready to use.
type Map struct {
	mu   Mutex
	keys []any
	vals map[any]any
}

func (m *Map) lock() {
	m.mu.Lock()
	if m.vals == nil {
		m.vals = map[any]any{}
	}
}

func (m *Map) drop(key any) {
	delete(m.vals, key)
	for i, k := range m.keys {
		if k == key {
			m.keys = append(m.keys[:i:i], m.keys[i+1:]...)
			break
		}
	}
}

func (m *Map) Load(key any) (any, bool) {
	m.lock()
	defer m.mu.Unlock()
	v, ok := m.vals[key]
	return v, ok
}

func (m *Map) Store(key, value any) { m.Swap(key, value) }

func (m *Map) LoadOrStore(key, value any) (any, bool) {
	m.lock()
	defer m.mu.Unlock()
	if v, ok := m.vals[key]; ok {
		return v, true
	}
	m.vals[key] = value
	m.keys = append(m.keys, key)
	return value, false
}

func (m *Map) LoadAndDelete(key any) (any, bool) {
	m.lock()
	defer m.mu.Unlock()
	v, ok := m.vals[key]
	if ok {
		m.drop(key)
	}
	return v, ok
}

func (m *Map) Delete(key any) { m.LoadAndDelete(key) }

func (m *Map) Swap(key, value any) (any, bool) {
	m.lock()
	defer m.mu.Unlock()
	prev, ok := m.vals[key]
	if !ok {
		m.keys = append(m.keys, key)
	}
	m.vals[key] = value
	return prev, ok
}

func (m *Map) CompareAndSwap(key, old, new any) bool {
	m.lock()
	defer m.mu.Unlock()
	if v, ok := m.vals[key]; ok && v == old {
		m.vals[key] = new
		return true
	}
	return false
}

func (m *Map) CompareAndDelete(key, old any) bool {
	m.lock()
	defer m.mu.Unlock()
	if v, ok := m.vals[key]; ok && v == old {
		m.drop(key)
		return true
	}
	return false
}

func (m *Map) Range(f func(key, value any) bool) {
	m.lock()
	keys := append([]any{}, m.keys...)
	vals := make([]any, len(keys))
	for i, k := range keys {
		vals[i] = m.vals[k]
	}
	m.mu.Unlock()
	for i, k := range keys {
		if !f(k, vals[i]) {
			return
		}
	}
}

func (m *Map) Clear() {
	m.lock()
	defer m.mu.Unlock()
	m.keys, m.vals = nil, map[any]any{}
}

type WaitGroup struct {
	n    int
	sync int // race-detector edge: Done happens-before the return of Wait, as with sync.WaitGroup
}

//go:norace
func (wg *WaitGroup) Add(n int) {
	if n < 0 {
		raceRelease(unsafe.Pointer(&wg.sync))
	}
	wg.n += n
	if wg.n == 0 {
		Wake(wg)
	}
}

func (wg *WaitGroup) Done() { wg.Add(-1) }

//go:norace
func (wg *WaitGroup) Wait() {
	if !Active() {
		if wg.n > 0 {
			select {}
		}
		return
	}
	pre(OpWait)
	for wg.n > 0 {
		BlockOn(wg)
	}
	raceAcquire(unsafe.Pointer(&wg.sync))
}

// Sleep replaces time.Sleep in woven code: the block is announced so the controller can advance the clock.
//
//go:norace
func Sleep(d time.Duration) {
	if !Active() {
		time.Sleep(d)
		return
	}
	w := pre(OpSleep)
	cur.emit(event{w: w, kind: evBlockNative})
	time.Sleep(d)
	post(w)
}

func Send[T any](ch chan<- T, v T) {
	if !Active() {
		ch <- v
		return
	}
	w := pre(OpSend)
	if ch != nil {
		select {
		case ch <- v:
			// like Unlock: what follows a send is no longer ordered before the receiver, so the receiver must be
			// able to run between the send and whatever follows it
			if Active() {
				pre(OpYield)
			}
			return
		default:
		}
	}
	cur.emit(event{w: w, kind: evBlockNative})
	ch <- v
	post(w)
}

func Recv[T any](ch <-chan T) T {
	v, _ := Recv2(ch)
	return v
}

func Recv2[T any](ch <-chan T) (T, bool) {
	if !Active() {
		v, ok := <-ch
		return v, ok
	}
	w := pre(OpRecv)
	if ch != nil {
		select {
		case v, ok := <-ch:
			return v, ok
		default:
		}
	}
	cur.emit(event{w: w, kind: evBlockNative})
	v, ok := <-ch
	post(w)
	return v, ok
}

func Close[T any](ch chan<- T) {
	if Active() {
		pre(OpClose)
	}
	close(ch)
	// (a scheduling point after the close as well, for the same reason as after Unlock and Send)
	if Active() {
		pre(OpYield)
	}
}

type Case struct {
	Dir  reflect.SelectDir
	Chan reflect.Value
	Val  reflect.Value
}

func RecvCase[T any](ch <-chan T) Case {
	return Case{Dir: reflect.SelectRecv, Chan: reflect.ValueOf(ch)}
}

func SendCase[T any](ch chan<- T, v T) Case {
	return Case{Dir: reflect.SelectSend, Chan: reflect.ValueOf(ch), Val: reflect.ValueOf(&v).Elem()}
}

func Select(hasDefault bool, cases ...Case) (int, reflect.Value, bool) {
	var w *worker
	active := Active()
	if active {
		w = pre(OpSelect)
	}
	// poll each case without blocking, starting at a scheduler-chosen rotation
	n := len(cases)
	start := 0
	if active && n > 1 {
		start = cur.choose(n)
	}
	for k := 0; k < n; k++ {
		i := (start + k) % n
		c := cases[i]
		rc := []reflect.SelectCase{{Dir: c.Dir, Chan: c.Chan, Send: c.Val}, {Dir: reflect.SelectDefault}}
		if j, rv, ok := reflect.Select(rc); j == 0 {
			return i, rv, ok
		}
	}
	if hasDefault {
		return -1, reflect.Value{}, false
	}
	rc := make([]reflect.SelectCase, n)
	for i, c := range cases {
		rc[i] = reflect.SelectCase{Dir: c.Dir, Chan: c.Chan, Send: c.Val}
	}
	if active {
		cur.emit(event{w: w, kind: evBlockNative})
	}
	i, rv, ok := reflect.Select(rc)
	if active {
		post(w)
	}
	return i, rv, ok
}

func As[T any](rv reflect.Value, _ <-chan T) T {
	var zero T
	if !rv.IsValid() {
		return zero
	}
	v, _ := rv.Interface().(T)
	return v
}

// NoteKey assigns a deterministic identity to a pointer/interface map key at insertion time.
//
//go:norace
func NoteKey(k interface{}) {
	if !Active() {
		return
	}
	cur.keyID(k)
}

//go:norace
func (s *Sim) keyID(k interface{}) uint64 {
	for i := 0; i < s.nkeys; i++ {
		if s.keys[i].k == k {
			return s.keys[i].id
		}
	}
	if s.nkeys >= len(s.keys) {
		s.infra = "key registry overflow"
		return 0
	}
	s.keys[s.nkeys] = keyEnt{k: k, id: uint64(s.nkeys + 1)}
	s.nkeys++
	return uint64(s.nkeys)
}

func MapKeys[K comparable, V any](m map[K]V) []K {
	keys := make([]K, 0, len(m))
	for k := range m {
		keys = append(keys, k)
	}
	sort.Slice(keys, func(i, j int) bool { return less(keys[i], keys[j]) })
	return keys
}

func less(a, b interface{}) bool {
	switch x := a.(type) {
	case string:
		return x < b.(string)
	case int:
		return x < b.(int)
	case uint32:
		return x < b.(uint32)
	}
	va, vb := reflect.ValueOf(a), reflect.ValueOf(b)
	switch va.Kind() {
	case reflect.String:
		return va.String() < vb.String()
	case reflect.Int, reflect.Int8, reflect.Int16, reflect.Int32, reflect.Int64:
		return va.Int() < vb.Int()
	case reflect.Uint, reflect.Uint8, reflect.Uint16, reflect.Uint32, reflect.Uint64, reflect.Uintptr:
		return va.Uint() < vb.Uint()
	default:
		if Active() {
			return cur.keyID(a) < cur.keyID(b)
		}
		return fmt.Sprint(a) < fmt.Sprint(b)
	}
}

//go:norace
func (s *Sim) choose(n int) int { return s.tape.Choose(n) }

// Choose draws a scheduler-owned choice in [0,n) from the schedule tape. 0 is always the calm choice.
//
//go:norace
func Choose(n int) int {
	if !Active() || n <= 1 {
		return 0
	}
	return cur.choose(n)
}

// CurrentID returns the id of the worker that holds the baton (-1 outside a simulation or in the controller).
//
//go:norace
func CurrentID() int {
	if cur == nil || cur.current == nil {
		return -1
	}
	return cur.current.id
}

// MaxWorkers bounds worker ids (harness code keeps per-worker state in arrays of this size).
const MaxWorkers = maxWorkers

// Step returns the global event sequence number (for ordering oracles).
//
//go:norace
func Step() int {
	if cur == nil {
		return 0
	}
	return cur.Steps
}

// WorkerInfo describes a worker that had not exited when the run ended.
type WorkerInfo struct {
	ID     int
	Name   string
	Task   bool
	State  string
	WaitOn string
	Stack  string   // full goroutine stack
	Funcs  []string // function names of the stack, innermost first
}

type Result struct {
	Hash       uint64
	Steps      int
	Switches   int
	LockWaits  int
	Stuck      bool // quiescent with at least one unfinished task
	StepLimit  bool
	Infra      string       // non-empty: the run is not trustworthy (exit-2 class)
	Alive      []WorkerInfo // workers alive at the end (tasks => hang, others => leak)
	Panics     []string     // panics that escaped a worker
	SimElapsed time.Duration
	Edges      []LockEdge
	WaitCycle  string
	CycleIDs   []int // ids of the workers that form the wait-for cycle
}

// Run executes root as worker 0 under the scheduler, inside the current synctest bubble, until
// every worker has exited or the system is quiescent.
//
//go:norace
func Run(tape *Tape, cfg Config, hook func(*Sim) Hook, root func()) Result {
	if cfg.MaxSteps == 0 {
		cfg.MaxSteps = 200000
	}
	if cfg.IdleHops == 0 {
		cfg.IdleHops = 3
	}
	s := &Sim{events: make(chan event, 8192), tape: tape, cfg: cfg, hash: 14695981039346656037, start: time.Now(),
		workers: make([]*worker, 0, maxWorkers), edges: make([]LockEdge, 0, maxEdges)}
	cur = s
	defer func() { cur = nil }()
	if hook != nil {
		s.hook = hook(s)
	}
	// warm one-time stdlib initialisation outside any worker
	tm := time.NewTimer(time.Hour)
	tm.Stop()
	spawn("root", true, root)
	res := s.loop()
	raceAcquire(unsafe.Pointer(&endSync))
	res.SimElapsed = time.Since(s.start)
	res.Edges = s.edges
	s.teardown(&res)
	return res
}

//go:norace
func (s *Sim) mix(a, b, c int) {
	for _, v := range [3]int{a, b, c} {
		s.hash ^= uint64(uint32(v))
		s.hash *= 1099511628211
	}
}

// Mix folds harness-level observations (bytes delivered, oracle-relevant data) into the event-log hash.
//
//go:norace
func Mix(a, b int) {
	if cur != nil {
		cur.mix(a, b, 0x55)
	}
}

//go:norace
func (s *Sim) loop() Result {
	idleHops := 0
	for {
		raceDisable()
		synctest.Wait()
		ran := s.current
		s.current = nil
		evs := s.stash
		s.stash = nil
	drain:
		for {
			select {
			case e := <-s.events:
				evs = append(evs, e)
			default:
				break drain
			}
		}
		raceEnable()
		StepCounter.Add(1)
		if s.infra != "" {
			return s.result(false, false)
		}
		sort.SliceStable(evs, func(i, j int) bool { return evs[i].w.id < evs[j].w.id })
		reported := ran == nil
		for _, e := range evs {
			if e.w == ran && e.kind != evWake {
				reported = true
			}
			switch e.kind {
			case evParked:
				e.w.state, e.w.op = stParked, e.op
			case evBlockNative:
				e.w.state = stNative
			case evBlockSim:
				e.w.state, e.w.waitOn = stSimBlocked, e.obj
			case evExit:
				e.w.state = stExited
			}
		}
		if !reported {
			s.infra = fmt.Sprintf("worker %d %q blocked without reporting (un-woven blocking operation?)", ran.id, ran.name)
			return s.result(false, false)
		}
		// wakes after state updates, so that a block+wake in the same step is not lost
		for _, e := range evs {
			if e.kind == evWake {
				s.wake(e.obj)
			}
		}
		for i := 0; i < s.npending; i++ {
			s.wake(s.pendingWake[i])
			s.pendingWake[i] = nil
		}
		s.npending = 0

		var cand []*worker
		alive, tasks := 0, 0
		for _, w := range s.workers {
			if w.state != stExited {
				alive++
				if w.task {
					tasks++
				}
			}
			if w.state == stParked {
				cand = append(cand, w)
			}
		}
		if alive == 0 {
			return s.result(false, false)
		}
		nNet := 0
		if s.hook != nil {
			nNet = s.hook.Candidates()
		}
		if s.demoted != nil {
			if s.Steps >= s.demoteUntil || s.demoted.state == stExited {
				s.demoted = nil
			} else if len(cand)+nNet > 1 {
				k := 0
				for _, w := range cand {
					if w != s.demoted {
						cand[k] = w
						k++
					}
				}
				cand = cand[:k]
			}
		}
		if len(cand)+nNet == 0 {
			// nothing runnable: advance time
			if s.hook != nil {
				if t, ok := s.hook.NextDeadline(); ok {
					if d := time.Until(t); d > 0 {
						if s.idle(d) {
							continue // a worker woke up (native timer) before the deadline
						}
					}
					s.hook.FireDeadlines(time.Now())
					idleHops = 0
					continue
				}
			}
			if idleHops < s.cfg.IdleHops {
				if !s.idle(2 * time.Hour) {
					idleHops++
				}
				continue
			}
			return s.result(tasks > 0, false)
		}
		idleHops = 0
		if s.Steps >= s.cfg.MaxSteps {
			return s.result(false, true)
		}
		// policy: keep running the last worker unless the tape says to consider a switch
		var pick int
		total := len(cand) + nNet
		stay := -1
		for i, w := range cand {
			if w == s.last {
				stay = i
			}
		}
		if total == 1 {
			pick = 0
		} else if stay >= 0 && (s.cfg.SwitchPermille <= 0 || s.tape.Choose(1000) >= s.cfg.SwitchPermille) {
			pick = stay
		} else {
			pick = s.tape.Choose(total)
		}
		s.Steps++
		if pick >= len(cand) {
			i := pick - len(cand)
			s.mix(0xff, i, total)
			s.last = nil
			s.hook.Fire(i)
			continue
		}
		w := cand[pick]
		if w != s.last {
			s.Switches++
		}
		s.mix(w.id, w.op, total)
		w.state = stRunning
		s.current = w
		s.last = w
		raceDisable()
		w.resume <- false
		raceEnable()
	}
}

//go:norace
func (s *Sim) wake(obj interface{}) {
	for _, w := range s.workers {
		if w.state == stSimBlocked && w.waitOn == obj {
			w.state, w.op = stParked, OpRetry
		}
	}
}

var stateNames = [...]string{"running", "parked", "blocked-native", "blocked-sim", "exited"}

//go:norace
func (s *Sim) result(stuck, limit bool) Result {
	r := Result{Hash: s.hash, Steps: s.Steps, Switches: s.Switches, LockWaits: s.LockWaits, Stuck: stuck, StepLimit: limit, Infra: s.infra, Panics: s.taskPanics}
	anyAlive := false
	for _, w := range s.workers {
		if w.state != stExited {
			anyAlive = true
		}
	}
	if !anyAlive {
		return r
	}
	stacks := allStacks()
	for _, w := range s.workers {
		if w.state == stExited {
			continue
		}
		wi := WorkerInfo{ID: w.id, Name: w.name, Task: w.task, State: stateNames[w.state]}
		if w.state == stSimBlocked {
			wi.WaitOn = fmt.Sprintf("%T", w.waitOn)
			if m, ok := w.waitOn.(*Mutex); ok && m.owner != nil {
				wi.WaitOn += fmt.Sprintf(" held by worker %d %q", m.owner.id, m.owner.name)
			}
		}
		if st, ok := stacks[w.goid]; ok {
			wi.Stack = st
			wi.Funcs = stackFuncs(st)
		}
		r.Alive = append(r.Alive, wi)
	}
	// wait-for cycle among simulated mutexes
	for _, w := range s.workers {
		if w.state != stSimBlocked {
			continue
		}
		seen := map[*worker]bool{}
		x := w
		path := ""
		var ids []int
		for x != nil && !seen[x] {
			seen[x] = true
			ids = append(ids, x.id)
			m, ok := x.waitOn.(*Mutex)
			if !ok || x.state != stSimBlocked || m.owner == nil {
				x = nil
				break
			}
			path += fmt.Sprintf("worker %d %q waits for mutex held by worker %d %q; ", x.id, x.name, m.owner.id, m.owner.name)
			x = m.owner
		}
		if x != nil && x == w {
			r.WaitCycle = path
			r.CycleIDs = ids
			break
		}
	}
	return r
}

// Snapshot returns the workers that have not exited, as seen by the calling task (which holds the
// baton, so every other worker is parked or blocked and the states are exact).
//
//go:norace
func Snapshot() []WorkerInfo {
	s := cur
	if s == nil {
		return nil
	}
	var out []WorkerInfo
	var stacks map[uint64]string
	for _, w := range s.workers {
		if w.state == stExited || w == s.current {
			continue
		}
		if stacks == nil {
			stacks = allStacks()
		}
		wi := WorkerInfo{ID: w.id, Name: w.name, Task: w.task, State: stateNames[w.state]}
		if st, ok := stacks[w.goid]; ok {
			wi.Stack = st
			wi.Funcs = stackFuncs(st)
		}
		out = append(out, wi)
	}
	return out
}

// teardown releases every worker that is parked in the scheduler so that its goroutine exits
// (running deferred calls in pass-through mode). Natively blocked workers cannot be released.
//
//go:norace
func (s *Sim) teardown(res *Result) {
	s.dead.Store(true)
	raceDisable()
	defer raceEnable()
	for _, w := range s.workers {
		if w.state == stParked || w.state == stSimBlocked {
			select {
			case w.resume <- true:
			default:
				// the worker is not actually waiting on resume (should not happen)
			}
		}
	}
	synctest.Wait()
}

func allStacks() map[uint64]string {
	buf := make([]byte, 1<<20)
	for {
		n := runtime.Stack(buf, true)
		if n < len(buf) {
			buf = buf[:n]
			break
		}
		buf = make([]byte, 2*len(buf))
	}
	out := map[uint64]string{}
	for _, g := range strings.Split(string(buf), "\n\n") {
		if !strings.HasPrefix(g, "goroutine ") {
			continue
		}
		var id uint64
		for i := len("goroutine "); i < len(g) && g[i] >= '0' && g[i] <= '9'; i++ {
			id = id*10 + uint64(g[i]-'0')
		}
		out[id] = g
	}
	return out
}

// stackFuncs extracts the function names of a goroutine dump, innermost first.
func stackFuncs(st string) []string {
	var out []string
	lines := strings.Split(st, "\n")
	for i := 1; i < len(lines); i++ {
		l := lines[i]
		if l == "" || l[0] == '\t' || strings.HasPrefix(l, "created by") {
			continue
		}
		if j := strings.LastIndex(l, "("); j > 0 {
			l = l[:j]
		}
		out = append(out, shortFunc(l))
	}
	return out
}

// idle lets simulated time pass for at most d; it returns true if a worker event arrived first.
//
//go:norace
func (s *Sim) idle(d time.Duration) bool {
	raceDisable()
	defer raceEnable()
	t := time.NewTimer(d)
	defer t.Stop()
	select {
	case e := <-s.events:
		s.stash = append(s.stash, e)
		return true
	case <-t.C:
		return false
	}
}

var ioSync int
var endSync int

// IOAcquire / IORelease mimic internal/poll's race annotations for socket reads and writes.
func IOAcquire() { raceAcquire(unsafe.Pointer(&ioSync)) }
func IORelease() { raceRelease(unsafe.Pointer(&ioSync)) }
