module verif.local/simrt

go 1.18
