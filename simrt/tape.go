package simrt

// Tape is a recorded sequence of bounded choices. In generate mode values beyond the recorded
// prefix are drawn from a private splitmix64 PRNG and appended; in replay mode they are 0, which
// every consumer treats as the calm / simplest choice. The tape never grows its backing array
// while a run is in progress (no growslice on memory shared between workers and controller).
type Tape struct {
	Vals   []uint32
	pos    int
	rng    prng
	Replay bool
	Over   bool // more than cap(Vals) choices were requested
}

const TapeCap = 1 << 18

// NewTape returns a generating tape seeded with seed.
func NewTape(seed uint64) *Tape {
	return &Tape{Vals: make([]uint32, 0, TapeCap), rng: prng{s: seed*0x9e3779b97f4a7c15 + 0x1234567}}
}

// ReplayTape returns a tape that replays vals and then yields zeros.
func ReplayTape(vals []uint32) *Tape {
	v := make([]uint32, len(vals), TapeCap)
	for i := range vals {
		v[i] = vals[i]
	}
	return &Tape{Vals: v, Replay: true}
}

// Prefill forces the first choices of a generating tape (used to enumerate fault points).
func (t *Tape) Prefill(vals []uint32) {
	for _, v := range vals {
		t.Vals = append(t.Vals, v)
	}
}

// Choose returns a value in [0,n). n<=1 consumes nothing.
//
//go:norace
func (t *Tape) Choose(n int) int {
	if n <= 1 {
		return 0
	}
	var v uint32
	if t.pos < len(t.Vals) {
		v = t.Vals[t.pos] % uint32(n)
	} else if !t.Replay {
		if len(t.Vals) >= cap(t.Vals) {
			t.Over = true
			return 0
		}
		v = uint32(t.rng.next()>>33) % uint32(n)
		t.Vals = t.Vals[:len(t.Vals)+1]
		t.Vals[t.pos] = v
	}
	t.pos++
	return int(v)
}

// Used returns the choices consumed so far.
//
//go:norace
func (t *Tape) Used() []uint32 {
	n := t.pos
	if n > len(t.Vals) {
		n = len(t.Vals)
	}
	out := make([]uint32, n)
	for i := 0; i < n; i++ {
		out[i] = t.Vals[i]
	}
	return out
}

//go:norace
func (t *Tape) Pos() int { return t.pos }

// Convenience generators (used outside the bubble by plan generators).

// Bool returns true with probability num/den; 0 on the tape means false.
func (t *Tape) Bool(num, den int) bool { return t.Choose(den) >= den-num }

// Range returns a value in [lo,hi].
func (t *Tape) Range(lo, hi int) int {
	if hi <= lo {
		return lo
	}
	return lo + t.Choose(hi-lo+1)
}

// prng is a private splitmix64 so that no instrumented stdlib state is shared between goroutines.
type prng struct{ s uint64 }

//go:norace
func (p *prng) next() uint64 {
	p.s += 0x9e3779b97f4a7c15
	z := p.s
	z = (z ^ (z >> 30)) * 0xbf58476d1ce4e5b9
	z = (z ^ (z >> 27)) * 0x94d049bb133111eb
	return z ^ (z >> 31)
}

// Hash64 mixes integers into a seed (run seed = Hash64(VERIF_SEED, property hash, run index)).
func Hash64(vs ...uint64) uint64 {
	p := prng{s: 0x243f6a8885a308d3}
	var h uint64
	for _, v := range vs {
		p.s ^= v
		h = p.next()
		p.s = h
	}
	return h
}
