//go:build race

package simrt

import (
	"runtime"
	"unsafe"
)

func raceDisable()                  { runtime.RaceDisable() }
func raceEnable()                   { runtime.RaceEnable() }
func RaceErrors() int               { return runtime.RaceErrors() }
func raceAcquire(p unsafe.Pointer)  { runtime.RaceAcquire(p) }
func raceRelease(p unsafe.Pointer)  { runtime.RaceReleaseMerge(p) }

func RaceReadRange(b []byte) {
	if len(b) > 0 {
		runtime.RaceReadRange(unsafe.Pointer(&b[0]), len(b))
	}
}
func RaceWriteRange(b []byte) {
	if len(b) > 0 {
		runtime.RaceWriteRange(unsafe.Pointer(&b[0]), len(b))
	}
}
