//go:build !race

package simrt

import "unsafe"

func raceDisable()                 {}
func raceEnable()                  {}
func RaceErrors() int              { return 0 }
func raceAcquire(p unsafe.Pointer) {}
func raceRelease(p unsafe.Pointer) {}

func RaceReadRange(b []byte)  {}
func RaceWriteRange(b []byte) {}
