#!/usr/bin/env python3
"""Supervisor of the go-imap deterministic-simulation checks.

check.py <property> [--tier quick|thorough] [--replay FILE] [--runs N] [--budget SECONDS]
         [--workers N] [--race] [--keep] [--selftest]

Rebuilds everything from /repo's current working tree: scratch copy -> weave -> harness test
binary -> worker processes. Exit 0: property held on everything explored (KNOWN-FINDING lines may
be printed). Exit 1: "VIOLATION property=<id> replay=<path>". Exit 2: infrastructure trouble.
"""
import argparse, json, os, re, shutil, subprocess, sys, tempfile, time, glob, signal

VERIF = os.path.dirname(os.path.abspath(__file__))
REPO = os.environ.get("VERIF_REPO", "/repo")
GO = "go1.26.8"
ENV = dict(os.environ, GOFLAGS="-mod=mod", GOPROXY="off", GOSUMDB="off", GOTOOLCHAIN="local",
           PATH="/opt/veriftools/go1.26.8/bin:" + os.environ.get("PATH", ""))

def log(*a):
    print(*a, flush=True)

def infra(msg):
    log("INFRA", msg)
    sys.exit(2)

def run(cmd, cwd=None, env=None, timeout=None):
    p = subprocess.run(cmd, cwd=cwd, env=env or ENV, stdout=subprocess.PIPE, stderr=subprocess.STDOUT, timeout=timeout)
    return p.returncode, p.stdout.decode("utf-8", "replace")

def build(tmp, race):
    """scratch copy of /repo -> weave -> harness module (once per tmp) -> test binary"""
    t0 = time.time()
    repo = os.path.join(tmp, "repo")
    h = os.path.join(tmp, "harness")
    wfile = os.path.join(tmp, "weave.stats")
    if not os.path.exists(wfile):
        rc, out = run(["rsync", "-a", "--exclude", ".git", "--exclude", "cmd", REPO + "/", repo + "/"])
        if rc != 0:
            infra("copy of /repo failed: " + out)
        weave = os.path.join(VERIF, "bin", "weave")
        if not os.path.exists(weave):
            os.makedirs(os.path.dirname(weave), exist_ok=True)
            rc, out = run([GO, "build", "-o", weave, "."], cwd=os.path.join(VERIF, "weave"))
            if rc != 0:
                infra("cannot build weave: " + out)
        rc, out = run([weave, repo, os.path.join(VERIF, "simrt")])
        if rc != 0:
            infra("weave failed:\n" + out)
        open(wfile, "w").write(out.strip().splitlines()[-1] if out.strip() else "")
        os.makedirs(h)
        for f in glob.glob(os.path.join(VERIF, "harness", "*.go")):
            shutil.copy(f, h)
        tmpl = open(os.path.join(VERIF, "harness", "go.mod.tmpl")).read()
        open(os.path.join(h, "go.mod"), "w").write(tmpl.replace("@REPO@", repo).replace("@SIMRT@", os.path.join(VERIF, "simrt")))
        shutil.copy(os.path.join(REPO, "go.sum"), os.path.join(h, "go.sum"))
    wstats = open(wfile).read()
    binp = os.path.join(tmp, "sim.race.test" if race else "sim.test")
    cmd = [GO, "test", "-c", "-trimpath", "-o", binp]
    if race:
        cmd.append("-race")
    cmd.append(".")
    rc, out = run(cmd, cwd=h)
    if rc != 0:
        infra("harness build failed (does /repo still compile?):\n" + out[-6000:])
    return binp, wstats, time.time() - t0

def load_known():
    p = os.path.join(VERIF, "known_findings.json")
    if not os.path.exists(p):
        return []
    return json.load(open(p)).get("findings", [])

def match_known(known, prop, sig):
    for k in known:
        if k.get("property") == prop and k.get("status") == "known" and re.search(k["signature_regex"], sig):
            return k
    return None

def worker_env(prop, tier, seed, out, i, n, runs, budget, race, extra=None):
    e = dict(ENV, VERIF_PROP=prop, VERIF_TIER=tier, VERIF_SEED=str(seed), VERIF_OUT=out, VERIF_WORKER=str(i),
             VERIF_NWORKERS=str(n), VERIF_RUNS=str(runs), VERIF_BUDGET_S=str(budget), GOMAXPROCS="2", GOMEMLIMIT="3GiB")
    if race:
        e["GORACE"] = "log_path=%s/race-%d halt_on_error=0 history_size=3" % (out, i)
    if extra:
        e.update(extra)
    return e

def spawn(binp, env, out, i, tag=""):
    lf = open(os.path.join(out, "worker-%d%s.log" % (i, tag)), "ab")
    return subprocess.Popen([binp, "-test.run", "^TestSim$", "-test.timeout", "0", "-test.v=false"], env=env, stdout=lf, stderr=subprocess.STDOUT, cwd=out,
                            preexec_fn=lambda: __import__("resource").setrlimit(__import__("resource").RLIMIT_AS, (24 << 30, 24 << 30)))

def tail(path, n=4000):
    try:
        b = open(path, "rb").read()
        return b[-n:].decode("utf-8", "replace")
    except OSError:
        return ""

def crash_class(text):
    for pat in [r"fatal error: [^\n]*", r"panic: [^\n]*", r"WATCHDOG[^\n]*", r"signal: [^\n]*", r"runtime: [^\n]*"]:
        m = re.search(pat, text)
        if m:
            s = re.sub(r"0x[0-9a-f]+|\d+", "N", m.group(0))
            # the most frequent go-imap function of the trace (for a stack overflow: the recursion body;
            # the innermost frame varies from run to run)
            counts = {}
            for fm in re.finditer(r"^(github\.com/emersion/go-imap/v2/[^\s(]+(?:\([^)]*\))?[^\s(]*)\(", text, re.M):
                f = fm.group(1).split("/")[-1]
                counts[f] = counts.get(f, 0) + 1
            fn = ""
            if counts:
                best = max(counts.values())
                fn = sorted(f for f, c in counts.items() if c == best)[0]
                if "stack overflow" not in s:
                    for fm in re.finditer(r"^(github\.com/emersion/go-imap/v2/[^\s(]+(?:\([^)]*\))?[^\s(]*)\(", text, re.M):
                        fn = fm.group(1).split("/")[-1]
                        break
            return s + (" in " + fn if fn else "")
    return "unknown crash"

def run_tier(prop, tier, seed, binp, out, runs, budget, nworkers, race, summaries, violations, infra_msgs):
    """Runs `runs` cases across worker processes; restarts a worker after a crash (attributing the crash to a run)."""
    procs = {}
    start_at = {i: i for i in range(nworkers)}
    crashes = {}
    deadline = time.time() + budget + 120
    for i in range(nworkers):
        procs[i] = spawn(binp, worker_env(prop, tier, seed, out, i, nworkers, runs, budget, race), out, i)
    while procs:
        time.sleep(0.2)
        for i, p in list(procs.items()):
            rc = p.poll()
            if rc is None:
                if time.time() > deadline:
                    p.kill()
                    infra_msgs.append("worker %d exceeded the wall-clock budget and was killed" % i)
                    del procs[i]
                continue
            del procs[i]
            sp = os.path.join(out, "summary-%d.json" % i)
            s = json.load(open(sp)) if os.path.exists(sp) else None
            if s and s.get("finished"):
                continue
            # crash: which run?
            try:
                idx = int(open(os.path.join(out, "progress-%d" % i)).read())
            except Exception:
                infra_msgs.append("worker %d died (rc=%s) before its first run:\n%s" % (i, rc, tail(os.path.join(out, "worker-%d.log" % i))))
                continue
            text = tail(os.path.join(out, "worker-%d.log" % i), 200000)
            cls = crash_class(text)
            # confirm in a fresh process
            cdir = os.path.join(out, "confirm-%d-%d" % (i, idx))
            os.makedirs(cdir, exist_ok=True)
            cextra = {"VERIF_ONLY": str(idx)}
            if cls.startswith("WATCHDOG"):
                # "no scheduler step for 30 s" can be machine load: it only counts if the same run also makes
                # no step for two minutes in a fresh process (a genuine non-terminating loop still does)
                cextra["VERIF_WATCHDOG_S"] = "120"
            cp = spawn(binp, worker_env(prop, tier, seed, cdir, 0, 1, runs, 600, race, cextra), cdir, 0)
            try:
                crc = cp.wait(timeout=900)
            except subprocess.TimeoutExpired:
                cp.kill()
                crc = -9
            ctext = tail(os.path.join(cdir, "worker-0.log"), 200000)
            csum = os.path.join(cdir, "summary-0.json")
            if crc != 0 and not (os.path.exists(csum) and json.load(open(csum)).get("finished")) and crash_class(ctext) == cls:
                rp = os.path.join(out, "replay-%s-%d-%d.json" % (prop, seed, idx))
                json.dump({"property": prop, "tier": tier, "base_seed": seed, "run_index": idx, "signature": "process-crash:" + cls,
                           "oracle": "process-crash", "class": cls, "detail": text[-3000:], "plan_tape": None, "sched_tape": None,
                           "minimised": False, "race_build": race, "trace": ["the process died during this run; replay regenerates the run from (base_seed, run_index)"]},
                          open(rp, "w"), indent=1)
                violations.append({"signature": "process-crash:" + cls, "oracle": "process-crash", "class": cls, "detail": text[-3000:], "replay": rp, "run_index": idx, "count": 1})
            else:
                infra_msgs.append("worker %d died at run %d (rc=%s, %s) but the crash did not reproduce in a fresh process" % (i, idx, rc, cls))
            crashes[i] = crashes.get(i, 0) + 1
            if crashes[i] <= 3 and idx + nworkers < runs and time.time() < deadline - 120:
                if s:
                    shutil.move(sp, os.path.join(out, "summary-%d-part%d.json" % (i, crashes[i])))
                procs[i] = spawn(binp, worker_env(prop, tier, seed, out, i, nworkers, runs, max(10, int(deadline - 120 - time.time())), race, {"VERIF_START": str(idx + nworkers)}), out, i)
    for sp in sorted(glob.glob(os.path.join(out, "summary-*.json"))):
        try:
            summaries.append(json.load(open(sp)))
        except Exception as e:
            infra_msgs.append("unreadable summary %s: %s" % (sp, e))

def selftest_record(prop):
    """The last cross-process determinism proof of this property (a separate run: check.py <id> --selftest)."""
    p = os.path.join(VERIF, "selftest", prop + ".json")
    try:
        d = json.load(open(p))
        return {"from": "separate run of check.py %s --selftest" % prop, "ok": d.get("ok"), "processes": d.get("processes"),
                "run_records_compared": d.get("run_records_compared"), "divergences": len(d.get("divergences") or []),
                "configurations": "GOMAXPROCS 1/4/16 concurrently; 30 simultaneous processes; race-visible build"}
    except (OSError, ValueError):
        return {"from": "not run"}

def selftest(prop, tier, seed, tmp, nruns):
    """Determinism proof for one property: every run index must give the same event-log hash, step count,
    switch count and violation signatures in every process, whatever GOMAXPROCS, build flavour or machine load."""
    results = {}
    problems = []
    def launch(binp, tag, gmp, runs, race):
        out = os.path.join(tmp, "st-" + tag)
        os.makedirs(out, exist_ok=True)
        hl = os.path.join(out, "hashlog")
        env = worker_env(prop, tier, seed, out, 0, 1, runs, 3600, race, {"VERIF_HASHLOG": hl, "VERIF_NOSHRINK": "1", "VERIF_DET_EVERY": "0", "GOMAXPROCS": str(gmp)})
        return spawn(binp, env, out, 0), hl
    def read(hl):
        d = {}
        try:
            for line in open(hl):
                idx, rest = line.split(" ", 1)
                d[int(idx)] = rest.strip()
        except OSError:
            pass
        return d
    binp, _, _ = build(tmp, False)
    # phase 1: the same indices, one process per GOMAXPROCS value, run concurrently (machine under load)
    procs = [(("plain-gmp%d" % g), launch(binp, "plain-gmp%d" % g, g, nruns, False)) for g in (1, 4, 16)]
    for tag, (p, hl) in procs:
        p.wait()
        results[tag] = read(hl)
    # phase 2: 30 processes at once over the first 20 indices
    procs = [(("par%02d" % k), launch(binp, "par%02d" % k, [1, 2, 4, 16][k % 4], 20, False)) for k in range(30)]
    for tag, (p, hl) in procs:
        p.wait()
        results[tag] = read(hl)
    # phase 3: the race-visible build (same schedule expected: only happens-before annotations differ)
    rbin, _, _ = build(tmp, True)
    p, hl = launch(rbin, "race-gmp4", 4, max(20, nruns // 4), True)
    p.wait()
    results["race-gmp4"] = read(hl)
    ref = results["plain-gmp1"]
    if len(ref) < nruns:
        problems.append("reference process produced %d of %d runs" % (len(ref), nruns))
    compared = 0
    for tag, d in sorted(results.items()):
        if not d:
            problems.append("%s produced no runs" % tag)
        for idx, v in sorted(d.items()):
            compared += 1
            if idx in ref and ref[idx] != v:
                problems.append("run %d differs in %s: %s vs reference %s" % (idx, tag, v, ref[idx]))
    os.makedirs(os.path.join(VERIF, "selftest"), exist_ok=True)
    rep = {"property": prop, "tier": tier, "seed": seed, "runs_in_reference": len(ref), "processes": len(results), "run_records_compared": compared,
           "configurations": sorted(results.keys()), "divergences": problems[:20], "ok": not problems,
           "compared_fields": "event-log hash, scheduler steps, task switches, violation signatures"}
    json.dump(rep, open(os.path.join(VERIF, "selftest", prop + ".json"), "w"), indent=1)
    log("selftest property=%s processes=%d records=%d divergences=%d" % (prop, len(results), compared, len(problems)))
    for m in problems[:10]:
        log("  " + m)
    if problems:
        log("INFRA determinism self-test failed")
        return 2
    return 0

def main():
    ap = argparse.ArgumentParser()
    ap.add_argument("prop")
    ap.add_argument("--tier", default=os.environ.get("VERIF_TIER", "quick"))
    ap.add_argument("--replay")
    ap.add_argument("--runs", type=int)
    ap.add_argument("--budget", type=int)
    ap.add_argument("--workers", type=int, default=int(os.environ.get("VERIF_WORKERS", "16")))
    ap.add_argument("--race", action="store_true", help="only the race-visible build")
    ap.add_argument("--norace", action="store_true", help="skip the race-visible build")
    ap.add_argument("--keep", action="store_true")
    ap.add_argument("--no-evidence", action="store_true")
    ap.add_argument("--warm", action="store_true", help="build both binaries (warms the Go build cache) and exit")
    ap.add_argument("--selftest", action="store_true", help="determinism proof: same seeds in separate processes at GOMAXPROCS 1/4/16, plain and race build, and 30 same-seed processes in parallel; writes /verif/selftest/<id>.json")
    a = ap.parse_args()
    prop, tier = a.prop, a.tier
    seed = int(os.environ.get("VERIF_SEED", "1") or 1)
    meta = json.load(open(os.path.join(VERIF, "props.json")))
    if a.warm:
        tmp = tempfile.mkdtemp(prefix="verif-warm-", dir=os.environ.get("VERIF_TMP", "/tmp"))
        try:
            for race in (False, True):
                _, _, bs = build(tmp, race)
                log("warm build race=%s %.1fs" % (race, bs))
        finally:
            shutil.rmtree(tmp, ignore_errors=True)
        sys.exit(0)
    if prop not in meta:
        infra("unknown property " + prop)
    pm = meta[prop]
    t0 = time.time()
    tmp = tempfile.mkdtemp(prefix="verif-%s-" % prop, dir=os.environ.get("VERIF_TMP", "/tmp"))
    outdir = os.path.join(VERIF, "out")
    os.makedirs(os.path.join(outdir, "replay"), exist_ok=True)
    try:
        if a.replay:
            rf = json.load(open(a.replay))
            race = bool(rf.get("race_build"))
            binp, _, _ = build(tmp, race)
            wout = os.path.join(tmp, "w")
            os.makedirs(wout)
            env = worker_env(prop, rf.get("tier", "quick"), rf.get("base_seed", 1), wout, 0, 1, 1, 3600, race, {"VERIF_REPLAY": os.path.abspath(a.replay)})
            p = subprocess.run([binp, "-test.run", "^TestSim$", "-test.timeout", "0"], env=env, cwd=wout, stdout=subprocess.PIPE, stderr=subprocess.STDOUT)
            text = p.stdout.decode("utf-8", "replace")
            log(text[-20000:])
            if "REPRODUCED" in text and "NOT-REPRODUCED" not in text:
                log("VIOLATION property=%s replay=%s" % (prop, os.path.abspath(a.replay)))
                sys.exit(1)
            if p.returncode not in (0, 1) and rf.get("oracle") == "process-crash" and crash_class(text) == rf.get("class"):
                log("VIOLATION property=%s replay=%s" % (prop, os.path.abspath(a.replay)))
                sys.exit(1)
            if p.returncode == 0:
                log("replay did not reproduce the violation on the current tree")
                sys.exit(0)
            infra("replay ended with rc=%d" % p.returncode)

        if a.selftest:
            sys.exit(selftest(prop, tier, seed, tmp, a.runs or 200))

        runs = a.runs or pm["runs"][tier]
        budget = a.budget or pm["budget_s"][tier]
        phases = []
        if not a.race:
            phases.append(False)
        if pm.get("race_divisor") and not a.norace:
            phases.append(True)
        summaries, violations, infra_msgs = [], [], []
        build_s = 0.0
        wstats = ""
        for race in phases:
            binp, wstats, bs = build(tmp, race)
            build_s += bs
            wout = os.path.join(tmp, "w-race" if race else "w")
            os.makedirs(wout)
            n = runs // pm["race_divisor"] if race else runs
            sums = []
            run_tier(prop, tier, seed, binp, wout, max(n, a.workers), budget, a.workers, race, sums, violations, infra_msgs)
            summaries += sums
        # aggregate
        agg = {"runs": 0, "steps": 0, "switches": 0, "sim_seconds": 0.0, "faults": {}, "probes": {}, "hashes": set(), "race_hashes": set(),
               "det_checks": 0, "det_mismatch": 0, "samples": [], "step_limited": 0, "race_runs": 0, "race_artefacts": 0}
        bysig = {}
        for v in violations:
            bysig[v["signature"]] = v
        for s in summaries:
            agg["runs"] += s["runs"]
            if s.get("race_build"):
                agg["race_runs"] += s["runs"]
            agg["steps"] += s["steps"]
            agg["switches"] += s["switches"]
            agg["sim_seconds"] += s["sim_seconds"]
            agg["det_checks"] += s["determinism_rechecks"]
            agg["det_mismatch"] += s["determinism_mismatches"]
            agg["step_limited"] += s["step_limited"]
            agg["race_artefacts"] += s.get("race_artefacts", 0)
            for k, v in (s.get("faults") or {}).items():
                agg["faults"][k] = agg["faults"].get(k, 0) + v
            for k, v in (s.get("probes") or {}).items():
                agg["probes"][k] = agg["probes"].get(k, 0) + v
            agg["hashes"].update(s.get("hashes") or [])
            if len(agg["samples"]) < 3:
                agg["samples"] += (s.get("samples") or [])[:1]
            for m in s.get("infra") or []:
                infra_msgs.append(m)
            for v in s.get("violations") or []:
                if v["signature"] in bysig:
                    bysig[v["signature"]]["count"] += v["count"]
                else:
                    bysig[v["signature"]] = v
        known = load_known()
        new, knownhits = [], []
        for sig, v in sorted(bysig.items()):
            # keep the replay file
            if v.get("replay") and os.path.exists(v["replay"]):
                dst = os.path.join(outdir, "replay", os.path.basename(v["replay"]))
                if os.path.abspath(v["replay"]) != dst:
                    shutil.copy(v["replay"], dst)
                v["replay"] = dst
            k = match_known(known, prop, sig)
            if k:
                knownhits.append((k, v))
            else:
                new.append(v)
        wall = time.time() - t0
        run_wall = max(1e-6, wall - build_s)
        ev = {
            "property_id": prop, "tier": tier, "seed": seed, "level": (summaries[0]["level"] if summaries else pm.get("level", "exploration")),
            "coverage": {
                "evaluations": agg["runs"],
                "distinct_nontrivial": len(agg["hashes"]),
                "rule": (summaries[0]["rule"] if summaries else ""),
                "samples": agg["samples"] or [{"note": "no non-trivial run recorded a trace"}],
                "exhaustive": False,
                "runs_per_hour": int(agg["runs"] / run_wall * 3600),
                "simulated_seconds_covered": round(agg["sim_seconds"], 1),
                "scheduler_steps": agg["steps"],
                "worker_switches": agg["switches"],
                "fault_kinds_fired": agg["faults"],
                "probes_reached": agg["probes"],
                "probes_stuck_at_zero": [p for p in pm.get("expected_probes", []) if not agg["probes"].get(p) and not agg["faults"].get(p)],
                "components": (summaries[0]["components"] if summaries else ""),
                "determinism_rechecks": agg["det_checks"],
                "determinism_mismatches": agg["det_mismatch"],
                "step_limited_runs": agg["step_limited"],
                "race_visible_runs": agg["race_runs"],
                "race_artefacts_discarded": agg["race_artefacts"],
                "weave": wstats,
                "known_findings_seen": [k["id"] for k, _ in knownhits],
                "violation_signatures": [v["signature"] for v in new],
                "build_seconds": round(build_s, 1),
                "determinism_selftest": selftest_record(prop),
            },
            "assumptions": (summaries[0].get("assumptions") or [] if summaries else []),
            "wall_s": round(wall, 1),
            "violations": len(new),
        }
        fatal_infra = [m for m in infra_msgs if "race-artefact" not in m]
        if not a.no_evidence and not (fatal_infra and not new):
            os.makedirs(os.path.join(VERIF, "evidence"), exist_ok=True)
            json.dump(ev, open(os.path.join(VERIF, "evidence", prop + ".json"), "w"), indent=1, default=list)
        log("property=%s tier=%s seed=%d runs=%d distinct=%d steps=%d sim_s=%.0f wall=%.1fs (build %.1fs) runs/h=%d" % (
            prop, tier, seed, agg["runs"], len(agg["hashes"]), agg["steps"], agg["sim_seconds"], wall, build_s, ev["coverage"]["runs_per_hour"]))
        log("faults fired:", json.dumps(agg["faults"], sort_keys=True))
        log("probes:", json.dumps(agg["probes"], sort_keys=True))
        for m in infra_msgs[:10]:
            log("INFRA-NOTE", m[:3000])
        for k, v in knownhits:
            log("KNOWN-FINDING: property=%s %s [%s] seen %d time(s); replay=%s" % (prop, k["what_fails"], k["id"], v["count"], v.get("replay")))
        for v in new:
            log("--- violation %s (seen %d time(s), first at run %d)" % (v["signature"], v["count"], v["run_index"]))
            log(v["detail"][:3000])
            log("VIOLATION property=%s replay=%s" % (prop, v.get("replay")))
        if new:
            sys.exit(1)
        if fatal_infra or agg["det_mismatch"]:
            sys.exit(2)
        if agg["runs"] == 0:
            infra("no run completed")
        sys.exit(0)
    finally:
        if a.keep:
            log("kept", tmp)
        else:
            shutil.rmtree(tmp, ignore_errors=True)

if __name__ == "__main__":
    main()
