// weave (prototype): type-directed source rewriting of a scratch copy of go-imap.
package main

import (
	"bytes"
	"fmt"
	"go/ast"
	"go/format"
	"go/token"
	"go/types"
	"os"
	"path/filepath"
	"sort"
	"strings"

	"golang.org/x/tools/go/ast/astutil"
	"golang.org/x/tools/go/packages"
)

const simrtPath = "verif.local/simrt"

var syncTypes = map[string]bool{"Mutex": true, "RWMutex": true, "WaitGroup": true, "Map": true}

type weaver struct {
	fset  *token.FileSet
	info  *types.Info
	n     int
	used  bool
	skip  map[ast.Node]bool
	stats map[string]int
	errs  []string

	timeRewritten bool
}

func main() {
	if len(os.Args) < 3 {
		fmt.Fprintln(os.Stderr, "usage: weave <scratch copy of go-imap> <path of simrt module>")
		os.Exit(2)
	}
	dir, simrtDir := os.Args[1], os.Args[2]
	cfg := &packages.Config{
		Mode: packages.NeedName | packages.NeedFiles | packages.NeedCompiledGoFiles | packages.NeedSyntax | packages.NeedTypes | packages.NeedTypesInfo | packages.NeedImports,
		Dir:  dir,
	}
	pkgs, err := packages.Load(cfg, "./...")
	if err != nil {
		fmt.Fprintln(os.Stderr, "load:", err)
		os.Exit(2)
	}
	total := map[string]int{}
	for _, p := range pkgs {
		if strings.Contains(p.PkgPath, "/cmd/") || strings.HasSuffix(p.PkgPath, "/cmd") {
			continue
		}
		if len(p.Errors) > 0 {
			fmt.Fprintln(os.Stderr, "WEAVE-BUILD-ERROR package errors:", p.PkgPath, p.Errors)
			os.Exit(2)
		}
		for _, f := range p.Syntax {
			name := p.Fset.Position(f.Pos()).Filename
			if strings.HasSuffix(name, "_test.go") {
				continue
			}
			w := &weaver{fset: p.Fset, info: p.TypesInfo, skip: map[ast.Node]bool{}, stats: map[string]int{}}
			w.file(f)
			if len(w.errs) > 0 {
				for _, e := range w.errs {
					fmt.Fprintln(os.Stderr, "WEAVE-UNSUPPORTED", e)
				}
				os.Exit(2)
			}
			if !w.used {
				continue
			}
			f.Comments = nil // new nodes carry no positions; drop comments rather than misplace them
			var buf bytes.Buffer
			if err := format.Node(&buf, p.Fset, f); err != nil {
				fmt.Fprintln(os.Stderr, "format:", name, err)
				os.Exit(2)
			}
			out := append([]byte("//go:build go1.21\n\n"), buf.Bytes()...)
			if err := os.WriteFile(name, out, 0o644); err != nil {
				fmt.Fprintln(os.Stderr, err)
				os.Exit(2)
			}
			for k, v := range w.stats {
				total[k] += v
			}
		}
	}
	// go.mod of the copy: depend on simrt
	gm, err := os.ReadFile(filepath.Join(dir, "go.mod"))
	if err != nil {
		fmt.Fprintln(os.Stderr, err)
		os.Exit(2)
	}
	gm = append(gm, []byte("\nrequire verif.local/simrt v0.0.0\n\nreplace verif.local/simrt => "+simrtDir+"\n")...)
	if err := os.WriteFile(filepath.Join(dir, "go.mod"), gm, 0o644); err != nil {
		fmt.Fprintln(os.Stderr, err)
		os.Exit(2)
	}
	// bridge package: lets the harness module drive internal packages of the copy
	bdir := filepath.Join(dir, "verifbridge")
	os.MkdirAll(bdir, 0o755)
	if err := os.WriteFile(filepath.Join(bdir, "bridge.go"), []byte(bridgeSrc), 0o644); err != nil {
		fmt.Fprintln(os.Stderr, err)
		os.Exit(2)
	}
	keys := make([]string, 0, len(total))
	for k := range total {
		keys = append(keys, k)
	}
	sort.Strings(keys)
	fmt.Print("weave stats:")
	for _, k := range keys {
		fmt.Printf(" %s=%d", k, total[k])
	}
	fmt.Println()
}

const bridgeSrc = `// Package verifbridge re-exports internal packages of go-imap to the verification harness.
// It exists only inside the check's scratch copy.
package verifbridge

import (
	"github.com/emersion/go-imap/v2/internal"
	"github.com/emersion/go-imap/v2/internal/imapwire"
)

type (
	Encoder             = imapwire.Encoder
	Decoder             = imapwire.Decoder
	ConnSide            = imapwire.ConnSide
	ContinuationRequest = imapwire.ContinuationRequest
	NumKind             = imapwire.NumKind
	LiteralReader       = imapwire.LiteralReader
)

const (
	ConnSideClient = imapwire.ConnSideClient
	ConnSideServer = imapwire.ConnSideServer
	NumKindSeq     = imapwire.NumKindSeq
	NumKindUID     = imapwire.NumKindUID
)

var (
	NewEncoder             = imapwire.NewEncoder
	NewDecoder             = imapwire.NewDecoder
	NewContinuationRequest = imapwire.NewContinuationRequest
	ExpectFlag             = internal.ExpectFlag
	ExpectMailboxAttr      = internal.ExpectMailboxAttr
)
`

func id(s string) *ast.Ident { return ast.NewIdent(s) }

func rt(name string) ast.Expr { return &ast.SelectorExpr{X: id("simrt"), Sel: id(name)} }

func call(fun ast.Expr, args ...ast.Expr) *ast.CallExpr { return &ast.CallExpr{Fun: fun, Args: args} }

func (w *weaver) tmp(prefix string) *ast.Ident {
	w.n++
	return id(fmt.Sprintf("_sim%s%d", prefix, w.n))
}

func define(lhs ast.Expr, rhs ast.Expr) ast.Stmt {
	return &ast.AssignStmt{Lhs: []ast.Expr{lhs}, Tok: token.DEFINE, Rhs: []ast.Expr{rhs}}
}

func (w *weaver) isChan(e ast.Expr) bool {
	t := w.info.TypeOf(e)
	if t == nil {
		return false
	}
	_, ok := t.Underlying().(*types.Chan)
	return ok
}

func (w *weaver) isConst(e ast.Expr) bool {
	tv, ok := w.info.Types[e]
	return ok && (tv.Value != nil || tv.IsNil())
}

func (w *weaver) pos(n ast.Node) string { return w.fset.Position(n.Pos()).String() }

func (w *weaver) file(f *ast.File) {
	// Pass 0: mark select comm statements so that their channel ops are not rewritten individually.
	ast.Inspect(f, func(n ast.Node) bool {
		if s, ok := n.(*ast.SelectStmt); ok {
			for _, c := range s.Body.List {
				cc := c.(*ast.CommClause)
				if cc.Comm == nil {
					continue
				}
				w.skip[cc.Comm] = true
				switch st := cc.Comm.(type) {
				case *ast.ExprStmt:
					w.skip[st.X] = true
				case *ast.AssignStmt:
					w.skip[st.Rhs[0]] = true
				}
			}
		}
		return true
	})

	labeled := map[ast.Stmt]bool{}
	ast.Inspect(f, func(n ast.Node) bool {
		if l, ok := n.(*ast.LabeledStmt); ok {
			labeled[l.Stmt] = true
		}
		return true
	})

	astutil.Apply(f, func(c *astutil.Cursor) bool {
		// pre-order: sync.X type replacement
		if se, ok := c.Node().(*ast.SelectorExpr); ok {
			if x, ok := se.X.(*ast.Ident); ok {
				if pn, ok := w.info.Uses[x].(*types.PkgName); ok && pn.Imported().Path() == "sync" {
					if syncTypes[se.Sel.Name] {
						c.Replace(&ast.SelectorExpr{X: id("simrt"), Sel: se.Sel})
						w.used = true
						w.stats["synctype"]++
					} else if se.Sel.Name == "Cond" || se.Sel.Name == "NewCond" {
						w.errs = append(w.errs, w.pos(se)+": sync."+se.Sel.Name)
					}
				}
			}
		}
		return true
	}, func(c *astutil.Cursor) bool {
		// post-order: statements and expressions
		switch n := c.Node().(type) {
		case *ast.GoStmt:
			c.Replace(w.goStmt(n))
		case *ast.SendStmt:
			if w.skip[n] {
				return true
			}
			w.used = true
			w.stats["send"]++
			c.Replace(&ast.ExprStmt{X: call(rt("Send"), n.Chan, n.Value)})
		case *ast.UnaryExpr:
			if n.Op != token.ARROW || w.skip[n] {
				return true
			}
			// v, ok := <-ch handled at the AssignStmt level
			if as, ok := c.Parent().(*ast.AssignStmt); ok && len(as.Lhs) == 2 && len(as.Rhs) == 1 {
				w.used = true
				w.stats["recv2"]++
				c.Replace(call(rt("Recv2"), n.X))
				return true
			}
			if vs, ok := c.Parent().(*ast.ValueSpec); ok && len(vs.Names) == 2 && len(vs.Values) == 1 {
				w.used = true
				w.stats["recv2"]++
				c.Replace(call(rt("Recv2"), n.X))
				return true
			}
			w.used = true
			w.stats["recv"]++
			c.Replace(call(rt("Recv"), n.X))
		case *ast.CallExpr:
			if se, ok := n.Fun.(*ast.SelectorExpr); ok {
				if x, ok := se.X.(*ast.Ident); ok {
					if pn, ok := w.info.Uses[x].(*types.PkgName); ok && pn.Imported().Path() == "time" {
						switch se.Sel.Name {
						case "Sleep":
							w.used = true
							w.stats["sleep"]++
							n.Fun = rt("Sleep")
							w.timeRewritten = true
						case "After", "AfterFunc", "Tick", "NewTicker":
							w.errs = append(w.errs, w.pos(n)+": time."+se.Sel.Name)
						}
					}
				}
			}
			if se, ok := n.Fun.(*ast.SelectorExpr); ok && se.Sel.Name == "Client" {
				if x, ok := se.X.(*ast.Ident); ok {
					if pn, ok := w.info.Uses[x].(*types.PkgName); ok && pn.Imported().Path() == "crypto/tls" {
						// see simrt.TLSClient: the lazy handshake is serialised by a simulated mutex
						w.used = true
						w.stats["tlsclient"]++
						n.Fun = rt("TLSClient")
					}
				}
			}
			if fn, ok := n.Fun.(*ast.Ident); ok && fn.Name == "close" {
				if _, ok := w.info.Uses[fn].(*types.Builtin); ok {
					w.used = true
					w.stats["close"]++
					c.Replace(call(rt("Close"), n.Args...))
				}
			}
		case *ast.RangeStmt:
			t := w.info.TypeOf(n.X)
			if t == nil {
				return true
			}
			switch t.Underlying().(type) {
			case *types.Chan:
				if labeled[n] {
					w.errs = append(w.errs, w.pos(n)+": labeled range over channel")
					return true
				}
				c.Replace(w.rangeChan(n))
			case *types.Map:
				if labeled[n] {
					w.errs = append(w.errs, w.pos(n)+": labeled range over map")
					return true
				}
				c.Replace(w.rangeMap(n))
			}
		case *ast.SelectStmt:
			if labeled[n] {
				w.errs = append(w.errs, w.pos(n)+": labeled select")
				return true
			}
			c.Replace(w.selectStmt(n))
		case *ast.AssignStmt:
			// m[k] = v on maps keyed by pointer/interface/chan: note key identity at insertion
			if n.Tok == token.ASSIGN && len(n.Lhs) == 1 {
				if ix, ok := n.Lhs[0].(*ast.IndexExpr); ok {
					if mt, ok := typeUnder(w.info.TypeOf(ix.X)).(*types.Map); ok && identityKey(mt.Key()) {
						w.used = true
						w.stats["notekey"]++
						c.Replace(&ast.BlockStmt{List: []ast.Stmt{
							&ast.ExprStmt{X: call(rt("NoteKey"), ix.Index)},
							n,
						}})
					}
				}
			}
		}
		return true
	})

	if w.used {
		astutil.AddImport(w.fset, f, simrtPath)
		if !usesPkgIdent(f, "sync") {
			astutil.DeleteImport(w.fset, f, "sync")
		}
		if w.timeRewritten && !usesPkgIdent(f, "time") {
			astutil.DeleteImport(w.fset, f, "time")
		}
	}
}

func typeUnder(t types.Type) types.Type {
	if t == nil {
		return nil
	}
	return t.Underlying()
}

func identityKey(t types.Type) bool {
	switch t.Underlying().(type) {
	case *types.Pointer, *types.Interface, *types.Chan:
		return true
	}
	return false
}

func usesPkgIdent(f *ast.File, name string) bool {
	found := false
	ast.Inspect(f, func(n ast.Node) bool {
		if se, ok := n.(*ast.SelectorExpr); ok {
			if x, ok := se.X.(*ast.Ident); ok && x.Name == name && x.Obj == nil {
				found = true
			}
		}
		return !found
	})
	return found
}

func (w *weaver) goStmt(n *ast.GoStmt) ast.Stmt {
	w.used = true
	w.stats["go"]++
	var stmts []ast.Stmt
	fn := w.tmp("f")
	stmts = append(stmts, define(fn, n.Call.Fun))
	var args []ast.Expr
	for _, a := range n.Call.Args {
		if w.isConst(a) {
			args = append(args, a)
			continue
		}
		t := w.tmp("a")
		stmts = append(stmts, define(t, a))
		args = append(args, t)
	}
	inner := &ast.CallExpr{Fun: fn, Args: args, Ellipsis: n.Call.Ellipsis}
	if n.Call.Ellipsis != token.NoPos {
		inner.Ellipsis = 1
	}
	lit := &ast.FuncLit{
		Type: &ast.FuncType{Params: &ast.FieldList{}},
		Body: &ast.BlockStmt{List: []ast.Stmt{&ast.ExprStmt{X: inner}}},
	}
	stmts = append(stmts, &ast.ExprStmt{X: call(rt("Go"), lit)})
	return &ast.BlockStmt{List: stmts}
}

func (w *weaver) rangeChan(n *ast.RangeStmt) ast.Stmt {
	w.used = true
	w.stats["rangechan"]++
	ch := w.tmp("c")
	v, ok := w.tmp("v"), w.tmp("ok")
	body := []ast.Stmt{
		&ast.AssignStmt{Lhs: []ast.Expr{v, ok}, Tok: token.DEFINE, Rhs: []ast.Expr{call(rt("Recv2"), ch)}},
		&ast.IfStmt{Cond: &ast.UnaryExpr{Op: token.NOT, X: ok}, Body: &ast.BlockStmt{List: []ast.Stmt{&ast.BranchStmt{Tok: token.BREAK}}}},
	}
	if n.Key != nil && !isBlank(n.Key) {
		body = append(body, &ast.AssignStmt{Lhs: []ast.Expr{n.Key}, Tok: n.Tok, Rhs: []ast.Expr{v}})
	} else {
		body = append(body, &ast.AssignStmt{Lhs: []ast.Expr{id("_")}, Tok: token.ASSIGN, Rhs: []ast.Expr{v}})
	}
	body = append(body, n.Body.List...)
	return &ast.BlockStmt{List: []ast.Stmt{
		define(ch, n.X),
		&ast.ForStmt{Body: &ast.BlockStmt{List: body}},
	}}
}

func isBlank(e ast.Expr) bool {
	i, ok := e.(*ast.Ident)
	return ok && i.Name == "_"
}

func (w *weaver) rangeMap(n *ast.RangeStmt) ast.Stmt {
	w.used = true
	w.stats["rangemap"]++
	m := w.tmp("m")
	k := w.tmp("k")
	var body []ast.Stmt
	// skip keys deleted during the iteration, like the native loop does
	val, ok := w.tmp("v"), w.tmp("ok")
	body = append(body,
		&ast.AssignStmt{Lhs: []ast.Expr{val, ok}, Tok: token.DEFINE, Rhs: []ast.Expr{&ast.IndexExpr{X: m, Index: k}}},
		&ast.IfStmt{Cond: &ast.UnaryExpr{Op: token.NOT, X: ok}, Body: &ast.BlockStmt{List: []ast.Stmt{&ast.BranchStmt{Tok: token.CONTINUE}}}},
		&ast.AssignStmt{Lhs: []ast.Expr{id("_")}, Tok: token.ASSIGN, Rhs: []ast.Expr{val}},
	)
	if n.Key != nil && !isBlank(n.Key) {
		body = append(body, &ast.AssignStmt{Lhs: []ast.Expr{n.Key}, Tok: n.Tok, Rhs: []ast.Expr{k}})
	}
	if n.Value != nil && !isBlank(n.Value) {
		body = append(body, &ast.AssignStmt{Lhs: []ast.Expr{n.Value}, Tok: n.Tok, Rhs: []ast.Expr{val}})
	}
	body = append(body, n.Body.List...)
	return &ast.BlockStmt{List: []ast.Stmt{
		define(m, n.X),
		&ast.RangeStmt{Key: id("_"), Value: k, Tok: token.DEFINE, X: call(rt("MapKeys"), m), Body: &ast.BlockStmt{List: body}},
	}}
}

func (w *weaver) selectStmt(n *ast.SelectStmt) ast.Stmt {
	w.used = true
	w.stats["select"]++
	var pre []ast.Stmt
	var cases []ast.Expr
	var clauses []ast.Stmt
	hasDefault := false
	idx, rv, okv := w.tmp("i"), w.tmp("rv"), w.tmp("ok")
	ci := 0
	for _, c := range n.Body.List {
		cc := c.(*ast.CommClause)
		if cc.Comm == nil {
			hasDefault = true
			clauses = append(clauses, &ast.CaseClause{List: []ast.Expr{&ast.UnaryExpr{Op: token.SUB, X: &ast.BasicLit{Kind: token.INT, Value: "1"}}}, Body: cc.Body})
			continue
		}
		var body []ast.Stmt
		switch st := cc.Comm.(type) {
		case *ast.SendStmt:
			ch, v := w.tmp("c"), w.tmp("x")
			pre = append(pre, define(ch, st.Chan))
			if w.isConst(st.Value) {
				cases = append(cases, call(rt("SendCase"), ch, st.Value))
			} else {
				pre = append(pre, define(v, st.Value))
				cases = append(cases, call(rt("SendCase"), ch, v))
			}
		case *ast.ExprStmt: // <-ch
			ch := w.tmp("c")
			pre = append(pre, define(ch, st.X.(*ast.UnaryExpr).X))
			cases = append(cases, call(rt("RecvCase"), ch))
		case *ast.AssignStmt: // v := <-ch ; v, ok := <-ch ; v = <-ch
			ch := w.tmp("c")
			pre = append(pre, define(ch, st.Rhs[0].(*ast.UnaryExpr).X))
			cases = append(cases, call(rt("RecvCase"), ch))
			rhs := []ast.Expr{call(rt("As"), rv, ch)}
			if len(st.Lhs) == 2 {
				rhs = append(rhs, okv)
			}
			body = append(body, &ast.AssignStmt{Lhs: st.Lhs, Tok: st.Tok, Rhs: rhs})
			// avoid "declared and not used" when the body ignores them
			for _, l := range st.Lhs {
				if !isBlank(l) && st.Tok == token.DEFINE {
					body = append(body, &ast.AssignStmt{Lhs: []ast.Expr{id("_")}, Tok: token.ASSIGN, Rhs: []ast.Expr{l}})
				}
			}
		default:
			w.errs = append(w.errs, w.pos(cc)+": unsupported select comm clause")
		}
		body = append(body, cc.Body...)
		clauses = append(clauses, &ast.CaseClause{List: []ast.Expr{&ast.BasicLit{Kind: token.INT, Value: fmt.Sprint(ci)}}, Body: body})
		ci++
	}
	clauses = append(clauses, &ast.CaseClause{Body: []ast.Stmt{&ast.ExprStmt{X: call(id("panic"), &ast.BasicLit{Kind: token.STRING, Value: `"simrt: bad select index"`})}}})
	hd := id("false")
	if hasDefault {
		hd = id("true")
	}
	args := append([]ast.Expr{hd}, cases...)
	pre = append(pre,
		&ast.AssignStmt{Lhs: []ast.Expr{idx, rv, okv}, Tok: token.DEFINE, Rhs: []ast.Expr{call(rt("Select"), args...)}},
		&ast.AssignStmt{Lhs: []ast.Expr{id("_"), id("_")}, Tok: token.ASSIGN, Rhs: []ast.Expr{rv, okv}},
		&ast.SwitchStmt{Tag: idx, Body: &ast.BlockStmt{List: clauses}},
	)
	return &ast.BlockStmt{List: pre}
}
