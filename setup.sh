#!/bin/sh
# Builds the framework offline from files on disk: the weaver binary, then one warm build of the
# harness (plain and race-visible) so that later checks hit the Go build cache.
set -e
cd "$(dirname "$0")"
export GOFLAGS=-mod=mod GOPROXY=off GOSUMDB=off GOTOOLCHAIN=local
mkdir -p bin out evidence
(cd weave && go1.26.8 build -o ../bin/weave .)
python3 check.py C10 --warm
