#!/usr/bin/env python3
"""Generates MANIFEST.json from the table below (kept in one place so it stays valid)."""
import json, os
V = os.path.dirname(os.path.abspath(__file__))
BASE = json.load(open("/root/.vp/BASELINE.json"))["cmd"] if os.path.exists("/root/.vp/BASELINE.json") else ""
NA = [
 ("C15", "imapnum.Set / imap.SeqSet / imap.UIDSet are pure in-memory values: every operation is a function of its arguments, with no goroutine, clock, I/O or peer, so there is no schedule or fault for a simulator to choose - only inputs (DESIGN.md section 0)."),
 ("C16", "the modified UTF-7 encoder/decoder are pure transform.Transformers; buffer chunking is an argument of the function, not a nondeterministic event; no concurrency, time, I/O or peer (DESIGN.md section 0)."),
 ("C19", "SearchCriteria.And is a pure function of two values and the 'any key order' corollary is a pure function of the command text; nothing for a scheduler or fault injector to decide (DESIGN.md section 0)."),
 ("C20", "imapserver.MatchList is a pure function of four strings (DESIGN.md section 0)."),
]
CHECKS = json.load(open(os.path.join(V, "checks.json")))
claimed = {c["property_id"] for c in CHECKS}
m = {
 "version": 1,
 "setup_cmd": "sh /verif/setup.sh",
 "hooks": {
  "guard": "none (check-time weaving): every check copies /repo's working tree to a temporary directory, rewrites the copy's sync (Mutex, RWMutex, WaitGroup, Map) / channel / go / select / map-range / time.Sleep / tls.Client constructs into calls of /verif/simrt with /verif/bin/weave, and builds that copy; nothing is committed to /repo",
  "enable": "python3 /verif/check.py <id> (copy -> bin/weave -> go1.26.8 test -c [-race])",
  "baseline_off_cmd": BASE,
  "source_commits": [],
  "add_only": True,
 },
 "engines": [
  {"name": "simrt+simnet+weave", "path": "/verif/simrt, /verif/weave, /verif/harness, /verif/check.py", "serves_properties": sorted(claimed),
   "kind_free_text": "deterministic simulation with fault injection: one-goroutine-at-a-time seeded scheduler over the woven real code inside a testing/synctest bubble, simulated net.Conn/Listener with seeded segmentation, back-pressure, deadlines and faults, tape-based shrinking and replay"},
 ],
 "checks": CHECKS,
 "not_applicable": [{"property_id": i, "reason": r} for i, r in NA if i not in claimed] ,
 "notes": "All 20 properties are decided: 16 are claimed under checks (C01-C14, C17, C18), 4 are not applicable to this technique (C15, C16, C19, C20; reasons below and in DESIGN.md section 0). Exit codes: 0 held, 1 VIOLATION, 2 infrastructure trouble (never a VIOLATION). known_findings.json holds only 'fixed' entries (genuine defects repaired by 'fix:' commits in /repo); a fixed entry suppresses nothing.",
}
# properties planned but not yet claimed are listed as not applicable *yet* with that reason, so the manifest is always complete
ALL = ["C%02d" % i for i in range(1, 21)]
have = claimed | {x["property_id"] for x in m["not_applicable"]}
for i in ALL:
    if i not in have:
        m["not_applicable"].append({"property_id": i, "reason": "not claimed in this revision: the check for this property is not built yet (planned in DESIGN.md section 6); no result is reported for it"})
json.dump(m, open(os.path.join(V, "MANIFEST.json"), "w"), indent=1)
print("checks:", sorted(claimed))
