#!/bin/sh
# usage: run_all.sh [tier]  — runs every registered check in turn against /repo; prints one line per check.
tier=${1:-quick}
export GOFLAGS=-mod=mod GOPROXY=off GOSUMDB=off GOTOOLCHAIN=local
rc_all=0
for id in $(python3 -c "import json;print(' '.join(c['property_id'] for c in json.load(open('/verif/checks.json'))))"); do
  python3 /verif/check.py $id --tier $tier > /verif/out/all-$id-$tier.log 2>&1; rc=$?
  echo "$id rc=$rc $(grep '^property=' /verif/out/all-$id-$tier.log | head -1)"
  grep "^VIOLATION\|^INFRA\|^KNOWN-FINDING" /verif/out/all-$id-$tier.log | head -5
  [ $rc -ne 0 ] && rc_all=1
done
exit $rc_all
