import json,sys
for f in sys.argv[1:]:
    d=json.load(open(f))
    print('==',f); print(d['signature'],'minimised',d.get('minimised'),d.get('shrink_executions'),'plan',d.get('plan_tape'),'schedlen',len(d.get('sched_tape') or []))
    print(d['detail'][:3000])
    for l in d['trace']: print('  ',l[:900])
